//! Run under Miri: the one `unsafe` read the protocol depends on (IggyError::as_code reads the #[repr(u32)]
//! discriminant through a pointer cast) for every status code, plus pure codec round trips.
use iggy::bytes_serializable::BytesSerializable;
use iggy::error::IggyError;
use iggy::identifier::Identifier;

fn main() {
    let generic = IggyError::Error.as_code();
    let mut known = 0u32;
    let mut bad = 0u32;
    let max: u32 = std::env::args().nth(1).and_then(|s| s.parse().ok()).unwrap_or(12_000);
    for code in 0..=max {
        let e = IggyError::from_code(code);
        let back = e.as_code();
        if back == code {
            known += 1;
        } else if back != generic {
            bad += 1;
            println!("MISMATCH code={code} decoded_as={back}");
        }
    }
    // identifiers at boundary lengths
    let mut ids = 0;
    for len in [1usize, 2, 3, 254, 255] {
        let name: String = std::iter::repeat('a').take(len).collect();
        let id = Identifier::named(&name).unwrap();
        let back = Identifier::from_bytes(id.to_bytes()).unwrap();
        assert_eq!(id, back);
        ids += 1;
    }
    for v in [1u32, 255, 256, u32::MAX] {
        let id = Identifier::numeric(v).unwrap();
        assert_eq!(id, Identifier::from_bytes(id.to_bytes()).unwrap());
        ids += 1;
    }
    println!("MIRI-OK status_codes_known={known} mismatches={bad} identifiers={ids}");
    if bad > 0 {
        std::process::exit(1);
    }
}
