mod admin;
mod groups;
mod hl;
mod inst;
mod journal;
mod perm;
mod raw;
mod report;
mod rng;
mod world;
mod world_ext;
mod checks;
mod codec;
mod conc;
mod crash;

use report::ShardReport;
use std::time::Instant;

fn arg(args: &[String], name: &str) -> Option<String> {
    args.iter().position(|a| a == name).and_then(|i| args.get(i + 1).cloned())
}

fn main() {
    let args: Vec<String> = std::env::args().collect();
    if args.len() < 3 || args[1] != "run" {
        eprintln!("usage: iggy-verif run <CHECK> --tier quick|thorough --seed N --shard I --shards N --budget-s S --out FILE [--replay FILE]");
        std::process::exit(2);
    }
    let check = args[2].clone();
    let tier = arg(&args, "--tier").unwrap_or_else(|| "quick".into());
    let seed: u64 = arg(&args, "--seed").and_then(|s| s.parse().ok()).unwrap_or(1);
    let shard: u32 = arg(&args, "--shard").and_then(|s| s.parse().ok()).unwrap_or(0);
    let shards: u32 = arg(&args, "--shards").and_then(|s| s.parse().ok()).unwrap_or(1);
    let budget_s: u64 = arg(&args, "--budget-s").and_then(|s| s.parse().ok()).unwrap_or(30);
    let out = arg(&args, "--out").unwrap_or_else(|| "/dev/stdout".into());
    let replay = arg(&args, "--replay");

    inst::install_panic_monitor();
    let start = Instant::now();
    let mut rep = ShardReport { check: check.clone(), shard, seed, tier: tier.clone(), ..Default::default() };
    let ctx = checks::Ctx { check: check.clone(), tier, seed, shard, shards, budget_s, replay, start };
    let rt = tokio::runtime::Builder::new_multi_thread()
        .worker_threads(4)
        .thread_name("verif-drv")
        .enable_all()
        .build()
        .unwrap();
    // a panic on the driver's own thread ends this shard; what it means depends on where it was raised
    let ok = match std::panic::catch_unwind(std::panic::AssertUnwindSafe(|| rt.block_on(checks::dispatch(&ctx, &mut rep)))) {
        Ok(ok) => ok,
        Err(_) => {
            let panics = inst::take_server_panics();
            match panics.last() {
                Some(p) if p.location.starts_with("/repo/") => {
                    // iggy's own code (SDK side) panicked while the driver was calling it: a client-side crash is a finding of the check that provoked it
                    let file = p.location.rsplit('/').next().unwrap_or("").to_string();
                    rep.violation(report::Violation {
                        property: check.clone(),
                        clause: "no-panic".into(),
                        signature: format!("{check}:no-panic/client-side/{file}"),
                        witness: serde_json::json!({"first_bad": {"panic_in_iggy_code_on_the_client_side": p}, "note": "the shard stopped here"}),
                    });
                }
                Some(p) => rep.inconclusive(&format!("harness-panic:{}", p.location.rsplit('/').next().unwrap_or(""))),
                None => rep.inconclusive("harness-panic"),
            }
            true
        }
    };
    rep.wall_s = start.elapsed().as_secs_f64();
    let _ = std::fs::remove_dir_all(inst::scratch_root());
    if let Err(e) = rep.write(&out) {
        eprintln!("cannot write report: {e}");
        std::process::exit(3);
    }
    if !ok {
        eprintln!("unknown check {check}");
        std::process::exit(2);
    }
    // never rely on the exit code for the verdict: the driver reads the report
    std::process::exit(0);
}
