//! The data world: one stream, one topic, a few partitions, driven through the real TCP
//! front end by a single driver task, with reference models for the log (`PartM`), stored
//! consumer offsets and counters. Every operation evaluates every oracle it can; which clauses
//! count for the verdict of a given check is decided by the caller (clause ownership).

use crate::inst::{take_server_panics, CacheMode, ServerInstance, StartError, StorageCfg};
use crate::raw::RawClient;
use crate::report::Violation;
use crate::rng::{fnv64, Rng};
use bytes::Bytes;
use iggy::client::*;
use iggy::compression::compression_algorithm::CompressionAlgorithm;
use iggy::consumer::Consumer;
use iggy::error::IggyError;
use iggy::identifier::Identifier;
use iggy::messages::poll_messages::PollingStrategy;
use iggy::messages::send_messages::{Message, Partitioning};
use iggy::models::header::{HeaderKey, HeaderValue};
use iggy::models::messages::{PolledMessage, PolledMessages};
use iggy::models::topic::TopicDetails;
use iggy::utils::duration::IggyDuration;
use iggy::utils::expiry::IggyExpiry;
use iggy::utils::timestamp::IggyTimestamp;
use iggy::utils::topic_size::MaxTopicSize;
use iggy::utils::byte_size::IggyByteSize;
use serde::{Deserialize, Serialize};
use serde_json::{json, Value};
use std::collections::{BTreeMap, HashMap};
use std::future::Future;
use std::path::PathBuf;
use std::str::FromStr;
use std::time::Duration;

pub const OP_TIMEOUT_S: u64 = 30;
/// numeric ids of the stream, the topic under test and its sibling: all different, so that a swapped pair of ids cannot go unnoticed
pub const SID: u32 = 3;
pub const TID: u32 = 5;
pub const SIB: u32 = 6;
/// bounded progress in no-wait mode: retries (2 ms apart) before a missing tail counts as lost
pub const NOWAIT_RETRIES: u32 = 400;

#[derive(Debug)]
pub enum Stop {
    Violation(Violation),
    Inconclusive(String),
    /// an operation did not return within OP_TIMEOUT_S
    Stall(String),
}

pub type R<T> = Result<T, Stop>;

pub async fn timed<T>(what: &str, fut: impl Future<Output = T>) -> R<T> {
    match tokio::time::timeout(Duration::from_secs(OP_TIMEOUT_S), fut).await {
        Ok(v) => Ok(v),
        Err(_) => Err(Stop::Stall(what.to_string())),
    }
}

#[derive(Clone, Copy, Debug, PartialEq, Eq, Hash, Serialize, Deserialize, PartialOrd, Ord)]
pub enum Ident {
    /// individual consumer with numeric id
    C(u32),
    /// individual consumer with a name (index into NAMED)
    CN(u8),
    /// consumer group with numeric id
    G(u32),
    /// consumer group addressed by name (index into GROUPS)
    GN(u8),
}

pub const NAMED: [&str; 2] = ["alpha", "beta"];
/// groups created in every data history: (numeric id, name). Ids deliberately collide with consumer ids.
pub const GROUPS: [(u32, &str); 3] = [(1, "vgroup-one"), (2, "vgroup-two"), (3, "alpha")];

impl Ident {
    pub fn consumer(&self) -> Consumer {
        match self {
            Ident::C(id) => Consumer::new(Identifier::numeric(*id).unwrap()),
            Ident::CN(i) => Consumer::new(Identifier::named(NAMED[*i as usize]).unwrap()),
            Ident::G(id) => Consumer::group(Identifier::numeric(*id).unwrap()),
            Ident::GN(i) => Consumer::group(Identifier::named(GROUPS[*i as usize].1).unwrap()),
        }
    }
    /// identities that must share one stored offset
    pub fn canon(&self) -> Ident {
        match self {
            Ident::GN(i) => Ident::G(GROUPS[*i as usize].0),
            x => *x,
        }
    }
    pub fn is_group(&self) -> bool {
        matches!(self, Ident::G(_) | Ident::GN(_))
    }
    pub fn all() -> Vec<Ident> {
        vec![
            Ident::C(1),
            Ident::C(2),
            Ident::C(3),
            Ident::CN(0),
            Ident::CN(1),
            Ident::G(1),
            Ident::G(2),
            Ident::G(3),
            Ident::GN(0),
            Ident::GN(2),
        ]
    }
}

#[derive(Clone, Copy, Debug, PartialEq, Eq, Serialize, Deserialize)]
pub enum PollKind {
    Offset,
    First,
    Last,
    Next,
    Timestamp,
}

#[derive(Clone, Copy, Debug, PartialEq, Eq, Serialize, Deserialize)]
pub enum RestartMode {
    /// `System::shutdown()` then stop (what SIGTERM does)
    Shutdown,
    /// flush every partition through the API, then stop without `shutdown()`
    FlushAll,
}

#[derive(Clone, Copy, Debug, PartialEq, Eq, Serialize, Deserialize)]
pub enum BadSend {
    PartitionZero,
    PartitionBeyond,
    PartitionMax,
    UnknownTopic,
    UnknownStream,
}

#[derive(Clone, Debug, Serialize, Deserialize)]
pub enum Op {
    Send { part: u32, n: u32, sz: u32, seq: u64, headers: bool, dups: Vec<(u32, u64)>, key: Option<Vec<u8>>, balanced: bool },
    SendBad { kind: BadSend, n: u32, seq: u64 },
    Poll { part: u32, kind: PollKind, value: u64, count: u32, who: Ident, commit: bool },
    Flush { part: u32, fsync: bool },
    SaveTick { fsync: bool },
    Restart { mode: RestartMode, drop_index: bool, #[serde(default)] quiesce: bool },
    Purge,
    Store { part: u32, who: Ident, offset: u64 },
    GetOffset { part: u32, who: Ident },
    DeleteOffset { part: u32, who: Ident },
    AdvanceClock { us: u64 },
    Maintain,
    UpdateExpiry { us: u64 },
    UpdateMaxSize { bytes: u64 },
    CreatePartitions { n: u32 },
    DeletePartitions { n: u32 },
    DeleteGroup { idx: u8 },
    RestartKey { off: bool },
    CorruptCiphertext,
    SendSibling { n: u32, seq: u64 },
    Checkpoint,
}

impl Op {
    pub fn kind(&self) -> &'static str {
        match self {
            Op::Send { .. } => "send",
            Op::SendBad { .. } => "send_rejected",
            Op::Poll { kind, .. } => match kind {
                PollKind::Offset => "poll_offset",
                PollKind::First => "poll_first",
                PollKind::Last => "poll_last",
                PollKind::Next => "poll_next",
                PollKind::Timestamp => "poll_timestamp",
            },
            Op::Flush { .. } => "flush",
            Op::SaveTick { .. } => "save_tick",
            Op::Restart { mode: RestartMode::Shutdown, .. } => "restart_shutdown",
            Op::Restart { mode: RestartMode::FlushAll, .. } => "restart_flush_all",
            Op::Purge => "purge",
            Op::Store { .. } => "store_offset",
            Op::GetOffset { .. } => "get_offset",
            Op::DeleteOffset { .. } => "delete_offset",
            Op::AdvanceClock { .. } => "advance_clock",
            Op::Maintain => "maintain",
            Op::UpdateExpiry { .. } => "update_expiry",
            Op::UpdateMaxSize { .. } => "update_max_size",
            Op::CreatePartitions { .. } => "create_partitions",
            Op::DeletePartitions { .. } => "delete_partitions",
            Op::DeleteGroup { .. } => "delete_group",
            Op::RestartKey { .. } => "restart_wrong_key",
            Op::CorruptCiphertext => "corrupt_ciphertext",
            Op::SendSibling { .. } => "send_sibling",
            Op::Checkpoint => "checkpoint",
        }
    }
}

#[derive(Clone, Debug)]
pub struct Rec {
    pub id: u128,
    pub payload: Bytes,
    pub headers: Option<HashMap<HeaderKey, HeaderValue>>,
    pub ts: Option<u64>,
    pub checksum: Option<u32>,
    pub seq: u64,
    pub idx: u32,
}

#[derive(Clone, Debug, Default)]
pub struct PartM {
    pub id: u32,
    /// offset == index (since creation or the last purge)
    pub msgs: Vec<Rec>,
    /// every offset >= earliest is retained; offsets below are gone
    pub earliest: u64,
    /// stored offsets by canonical identity
    pub offs: BTreeMap<Ident, u64>,
    /// coverage only: number of messages the model believes were written to disk
    pub persisted: u64,
    pub unsaved: u32,
    /// coverage only: first offset appended after the last restart (None = nothing yet)
    pub first_after_restart: Option<u64>,
    pub restarted: bool,
}

impl PartM {
    pub fn cur(&self) -> u64 {
        if self.msgs.is_empty() {
            0
        } else {
            self.msgs.len() as u64 - 1
        }
    }
    pub fn retained(&self) -> u64 {
        self.msgs.len() as u64 - self.earliest.min(self.msgs.len() as u64)
    }
}

#[derive(Clone, Debug, Serialize, Deserialize)]
pub struct TopicCfg {
    pub partitions: u32,
    /// 0 = never, u64::MAX = server default
    pub expiry_us: u64,
    /// 0 = unlimited, u64::MAX = server default
    pub max_size: u64,
}

pub struct World {
    pub hist: u64,
    pub cfg: StorageCfg,
    pub cache: CacheMode,
    pub tcfg: TopicCfg,
    pub dir: PathBuf,
    pub inst: Option<ServerInstance>,
    pub client: Option<RawClient>,
    pub stream: Identifier,
    pub topic: Identifier,
    pub parts: Vec<PartM>,
    pub ops: Vec<Op>,
    pub ev: BTreeMap<String, u64>,
    pub evals: BTreeMap<String, u64>,
    pub opsk: BTreeMap<String, u64>,
    pub shape: Vec<&'static str>,
    pub groups_alive: [bool; 3],
    pub clock_us: u64,
    pub expiry_us: u64,
    pub max_size: u64,
    /// round-robin cursor model for balanced sends (None = unknown)
    pub rr_next: Option<u32>,
    pub key_memo: HashMap<(Vec<u8>, u32), u32>,
    pub restarts: u32,
    pub observed: Vec<Value>,
    pub ts_monotone: bool,
    pub last_ts: u64,
    pub retention_active: bool,
    /// also compare stream-level figures and server statistics at checkpoints (C16)
    pub deep: bool,
    pub stream_name: String,
    pub topic_name: String,
    pub named_ids: bool,
    pub len_at_restart: BTreeMap<u32, u64>,
    /// a second topic (id 2) in the same stream that holds data of its own (sums, isolation of limits)
    pub sibling: bool,
    pub sib_msgs: u64,
    /// how the last stop was done (for signatures): "" before any restart
    pub last_stop: &'static str,
}

pub fn viol(property: &str, clause: &str, trigger: &str, witness: Value) -> Stop {
    Stop::Violation(Violation {
        property: property.to_string(),
        clause: clause.to_string(),
        signature: format!("{property}:{clause}/{trigger}"),
        witness,
    })
}

pub fn class_of(e: &IggyError) -> &'static str {
    use IggyError::*;
    match e {
        Unauthenticated | StaleClient => "unauthenticated",
        Unauthorized => "unauthorized",
        TopicFull(..) => "topic_full",
        StreamIdNotFound(_) | StreamNameNotFound(_) | TopicIdNotFound(..) | TopicNameNotFound(..)
        | PartitionNotFound(..) | ConsumerGroupIdNotFound(..) | ConsumerGroupNameNotFound(..)
        | ResourceNotFound(_) | ConsumerOffsetNotFound(_) | NoPartitions(..) | SegmentNotFound => "not_found",
        InvalidOffset(_) => "invalid_offset",
        Disconnected | NotConnected | EmptyResponse => "disconnected",
        _ => "other",
    }
}

impl World {
    pub fn new(hist: u64, cfg: StorageCfg, cache: CacheMode, tcfg: TopicCfg, dir: PathBuf) -> World {
        let parts = (1..=tcfg.partitions).map(|id| PartM { id, ..Default::default() }).collect();
        World {
            hist,
            cfg,
            cache,
            expiry_us: tcfg.expiry_us,
            max_size: tcfg.max_size,
            tcfg,
            dir,
            inst: None,
            client: None,
            stream: Identifier::numeric(SID).unwrap(),
            topic: Identifier::numeric(TID).unwrap(),
            parts,
            ops: vec![],
            ev: BTreeMap::new(),
            evals: BTreeMap::new(),
            opsk: BTreeMap::new(),
            shape: vec![],
            groups_alive: [true; 3],
            clock_us: 0,
            rr_next: Some(1),
            key_memo: HashMap::new(),
            restarts: 0,
            observed: vec![],
            ts_monotone: true,
            last_ts: 0,
            retention_active: false,
            deep: false,
            stream_name: "s1".into(),
            topic_name: "t1".into(),
            named_ids: false,
            len_at_restart: BTreeMap::new(),
            sibling: false,
            sib_msgs: 0,
            last_stop: "",
        }
    }

    pub fn event(&mut self, name: &str) {
        *self.ev.entry(name.to_string()).or_insert(0) += 1;
    }
    /// confirmation mode for signatures; after a restart in no-wait mode also how the server was stopped
    pub fn mode_tag(&self, after_restart: bool) -> String {
        if !self.cfg.no_wait {
            "wait".into()
        } else if after_restart && !self.last_stop.is_empty() {
            format!("nowait-{}", self.last_stop)
        } else {
            "nowait".into()
        }
    }
    pub fn eval(&mut self, clause: &str) {
        *self.evals.entry(clause.to_string()).or_insert(0) += 1;
    }
    fn c(&self) -> &RawClient {
        self.client.as_ref().unwrap()
    }
    pub fn part(&self, id: u32) -> Option<&PartM> {
        self.parts.iter().find(|p| p.id == id)
    }
    pub fn part_mut(&mut self, id: u32) -> &mut PartM {
        self.parts.iter_mut().find(|p| p.id == id).unwrap()
    }

    pub fn witness(&self, detail: Value) -> Value {
        json!({
            "history": self.hist,
            "process_cfg": self.cache.name(),
            "storage_cfg": self.cfg,
            "topic_cfg": self.tcfg,
            "sibling": self.sibling,
            "ops": self.ops,
            "first_bad": {"i": self.ops.len().saturating_sub(1), "detail": detail},
            "server_panics": take_server_panics(),
        })
    }

    fn expiry(&self, us: u64) -> IggyExpiry {
        match us {
            0 => IggyExpiry::NeverExpire,
            u64::MAX => IggyExpiry::ServerDefault,
            v => IggyExpiry::ExpireDuration(IggyDuration::from(v)),
        }
    }
    fn maxsize(&self, b: u64) -> MaxTopicSize {
        match b {
            0 => MaxTopicSize::Unlimited,
            u64::MAX => MaxTopicSize::ServerDefault,
            v => MaxTopicSize::Custom(IggyByteSize::from(v)),
        }
    }
    /// effective expiry in micros (0 = never)
    pub fn effective_expiry(&self) -> u64 {
        match self.expiry_us {
            u64::MAX => self.cfg.default_expiry_us,
            v => v,
        }
    }
    pub fn effective_max_size(&self) -> u64 {
        match self.max_size {
            u64::MAX => self.cfg.default_max_topic_size,
            v => v,
        }
    }

    // -----------------------------------------------------------------------------------------
    // lifecycle

    pub async fn boot(&mut self) -> R<()> {
        self.start_instance().await?;
        let c = self.c();
        timed("create_stream", c.create_stream(&self.stream_name, Some(SID)))
            .await?
            .map_err(|e| Stop::Inconclusive(format!("create_stream: {e}")))?;
        let exp = self.expiry(self.tcfg.expiry_us);
        let ms = self.maxsize(self.tcfg.max_size);
        timed(
            "create_topic",
            c.create_topic(&self.stream, &self.topic_name, self.tcfg.partitions, CompressionAlgorithm::None, None, Some(TID), exp, ms),
        )
        .await?
        .map_err(|e| Stop::Inconclusive(format!("create_topic: {e}")))?;
        if self.named_ids {
            // every later command names the stream and the topic by name: the journal (purge, partitions, groups) then carries the names
            self.stream = Identifier::named(&self.stream_name).map_err(|e| Stop::Inconclusive(e.to_string()))?;
            self.topic = Identifier::named(&self.topic_name).map_err(|e| Stop::Inconclusive(e.to_string()))?;
        }
        let c = self.c();
        for (id, name) in GROUPS.iter() {
            timed("create_group", c.create_consumer_group(&self.stream, &self.topic, name, Some(*id)))
                .await?
                .map_err(|e| Stop::Inconclusive(format!("create_group: {e}")))?;
        }
        if self.sibling {
            timed(
                "create_topic",
                c.create_topic(&self.stream, "sibling", 1, CompressionAlgorithm::None, None, Some(SIB), IggyExpiry::NeverExpire, MaxTopicSize::Unlimited),
            )
            .await?
            .map_err(|e| Stop::Inconclusive(format!("create sibling topic: {e}")))?;
            self.op_send_sibling(8, 0).await?;
        }
        Ok(())
    }

    /// data for the sibling topic: it must never influence (or be influenced by) the topic under test
    async fn op_send_sibling(&mut self, n: u32, seq: u64) -> R<()> {
        if !self.sibling {
            return Ok(());
        }
        let mut msgs = vec![];
        for i in 0..n {
            let pl = format!("{:x}/sib{}/{}|{}", self.hist & 0xffff_ffff, seq, i, "s".repeat(480));
            msgs.push(Message::new(Some(((self.hist as u128) << 64) | (0x5_0000_0000u128) | ((seq as u128) << 12) | (i as u128 + 1)), Bytes::from(pl), None));
        }
        let two = Identifier::numeric(SIB).unwrap();
        let r = timed("send_sibling", self.c().send_messages(&self.stream, &two, &Partitioning::partition_id(1), &mut msgs)).await?;
        if let Err(e) = r {
            let w = json!({"send_to_sibling_topic": n, "error": e.to_string()});
            return Err(viol("C06", "valid-refused", "send-to-sibling-topic", self.witness(w)));
        }
        self.sib_msgs += n as u64;
        self.event("sibling_topic_has_data");
        Ok(())
    }

    pub async fn start_instance(&mut self) -> R<()> {
        let started = timed("start", ServerInstance::start(&self.dir, &self.cfg, self.cache)).await?;
        let inst = match started {
            Ok(i) => i,
            Err(StartError::Harness(e)) => return Err(Stop::Inconclusive(e)),
            Err(StartError::Init(e)) => {
                return Err(viol("C03", "restart-starts", "init-error", self.witness(json!({"init_error": e}))))
            }
            Err(StartError::Panic(e)) => {
                return Err(viol("C03", "restart-starts", "init-panic", self.witness(json!({"init_panic": e}))))
            }
        };
        let client = RawClient::connect(inst.tcp_addr).await.map_err(Stop::Inconclusive)?;
        timed("login", client.login_user("iggy", "iggy"))
            .await?
            .map_err(|e| Stop::Inconclusive(format!("login: {e}")))?;
        self.inst = Some(inst);
        self.client = Some(client);
        Ok(())
    }

    pub async fn teardown(&mut self) {
        self.client = None;
        if let Some(inst) = self.inst.take() {
            let _ = tokio::time::timeout(Duration::from_secs(OP_TIMEOUT_S), inst.stop(false)).await;
        }
        let _ = std::fs::remove_dir_all(&self.dir);
    }

    // -----------------------------------------------------------------------------------------
    // payloads

    fn make_message(&self, seq: u64, idx: u32, sz: u32, headers: bool, id_override: Option<u128>) -> (Message, Rec) {
        let mut r = Rng::new(self.hist ^ seq.wrapping_mul(0x1F35) ^ ((idx as u64) << 40));
        let tag = format!("{:x}/{}/{}|", self.hist & 0xffff_ffff, seq, idx);
        let mut payload = if sz < 13 { vec![] } else { tag.into_bytes() };
        let extra = (sz as usize).saturating_sub(payload.len()).max(1);
        payload.extend_from_slice(&r.bytes(extra));
        let id = id_override.unwrap_or(((self.hist as u128) << 64) | ((seq as u128) << 20) | (idx as u128 + 1));
        let hdrs = if headers {
            let mut h = HashMap::new();
            h.insert(HeaderKey::new("k-str").unwrap(), HeaderValue::from_str(&format!("v{}", r.below(1000))).unwrap());
            h.insert(HeaderKey::new("k-u64").unwrap(), HeaderValue::from_uint64(r.next_u64()).unwrap());
            if r.chance(1, 2) {
                h.insert(HeaderKey::new("k-bool").unwrap(), HeaderValue::from_bool(r.chance(1, 2)).unwrap());
            }
            Some(h)
        } else {
            None
        };
        let payload = Bytes::from(payload);
        let m = Message::new(Some(id), payload.clone(), hdrs.clone());
        (m, Rec { id, payload, headers: hdrs, ts: None, checksum: None, seq, idx })
    }

    // -----------------------------------------------------------------------------------------
    // reads used by oracles

    pub async fn get_topic(&self) -> R<TopicDetails> {
        match timed("get_topic", self.c().get_topic(&self.stream, &self.topic)).await? {
            Ok(Some(t)) => Ok(t),
            Ok(None) => Err(Stop::Inconclusive("get_topic: none".into())),
            Err(e) => Err(Stop::Inconclusive(format!("get_topic: {e}"))),
        }
    }

    pub async fn raw_poll(&self, part: u32, strat: &PollingStrategy, count: u32, who: &Consumer, commit: bool) -> R<Result<PolledMessages, IggyError>> {
        timed("poll", self.c().poll_messages(&self.stream, &self.topic, Some(part), who, strat, count, commit)).await
    }

    fn describe(msgs: &[PolledMessage]) -> Value {
        let offs: Vec<u64> = msgs.iter().map(|m| m.offset).collect();
        json!({"n": msgs.len(), "offsets": compress(&offs)})
    }

    /// Compares one returned message with the model record at its claimed offset.
    /// C01 clause `offset-tag`, C02 clause `fields`.
    pub fn check_message(&mut self, part: u32, m: &PolledMessage, ctx: &Value) -> R<()> {
        self.eval("C01:offset-tag");
        let hist = self.hist;
        let p = self.part_mut(part);
        let Some(rec) = p.msgs.get_mut(m.offset as usize) else {
            let w = json!({"ctx": ctx, "partition": part, "offset": m.offset, "model_len": p.msgs.len(), "payload_head": head(&m.payload)});
            return Err(viol("C01", "offset-tag", "offset-beyond-accepted", self.witness(w)));
        };
        if rec.payload != m.payload {
            // where does this payload belong?
            let tag = head(&m.payload);
            let w = json!({"ctx": ctx, "partition": part, "offset": m.offset, "got": tag, "expected": head(&rec.payload), "history": format!("{:x}", hist & 0xffff_ffff)});
            let known = self.parts.iter().any(|pp| pp.msgs.iter().any(|r| r.payload == m.payload));
            let trig = if known { "wrong-offset" } else { "foreign-payload" };
            let prop = if known { "C01" } else { "C02" };
            let clause = if known { "offset-tag" } else { "fields" };
            return Err(viol(prop, clause, trig, self.witness(w)));
        }
        let mut bad: Option<&'static str> = None;
        if rec.id != m.id {
            bad = Some("id");
        } else if rec.headers != m.headers {
            bad = Some("headers");
        }
        match rec.ts {
            None => rec.ts = Some(m.timestamp),
            Some(t) if t != m.timestamp => bad = bad.or(Some("timestamp")),
            _ => {}
        }
        match rec.checksum {
            None => rec.checksum = Some(m.checksum),
            Some(c) if c != m.checksum => bad = bad.or(Some("checksum")),
            _ => {}
        }
        self.eval("C02:fields");
        if let Some(f) = bad {
            let w = json!({"ctx": ctx, "partition": part, "offset": m.offset, "field": f});
            return Err(viol("C02", "fields", f, self.witness(w)));
        }
        Ok(())
    }

    /// Exact-slice oracle (C02 `slice`): `got` must equal the model slice [lo, hi] (inclusive; empty if lo > hi).
    /// With `allow_prefix` (no-wait confirmation: acknowledged writes may still be in flight) a strict
    /// prefix of the expected slice is tolerated and reported as `Ok(false)`; the caller retries.
    fn check_slice(&mut self, part: u32, got: &PolledMessages, lo: u64, hi: u64, empty: bool, ctx: Value, allow_prefix: bool) -> R<bool> {
        for m in &got.messages {
            self.check_message(part, m, &ctx)?;
        }
        self.eval("C02:slice");
        let got_offs: Vec<u64> = got.messages.iter().map(|m| m.offset).collect();
        let exp: Vec<u64> = if empty || lo > hi { vec![] } else { (lo..=hi).collect() };
        if got_offs != exp {
            if allow_prefix && got_offs.len() < exp.len() && exp.starts_with(&got_offs) {
                return Ok(false);
            }
            let kind = if self.cfg.no_wait { "not-prefix-inflight" } else { classify(&got_offs, &exp) };
            let tier = self.tier_class(part, lo, hi);
            let w = json!({"ctx": ctx, "partition": part, "expected": compress(&exp), "got": compress(&got_offs), "tier": tier, "mismatch": classify(&got_offs, &exp),
                "model": {"cur": self.part(part).map(|p| p.cur()), "earliest": self.part(part).map(|p| p.earliest), "persisted": self.part(part).map(|p| p.persisted)}});
            let mode = if self.cfg.no_wait { "nowait" } else { "wait" };
            return Err(viol("C02", "slice", &format!("{kind}/{mode}"), self.witness(w)));
        }
        Ok(true)
    }

    /// coverage classification of a window (never used for the verdict)
    fn tier_class(&self, part: u32, lo: u64, hi: u64) -> &'static str {
        let Some(p) = self.part(part) else { return "?" };
        if lo > hi {
            return "empty";
        }
        if hi < p.persisted {
            "disk"
        } else if lo >= p.persisted {
            "buffer"
        } else {
            "disk+buffer"
        }
    }

    fn check_current_offset(&mut self, part: u32, reported: u64, src: &str) -> R<()> {
        self.eval("C01:current-offset");
        let cur = self.part(part).map(|p| p.cur()).unwrap_or(0);
        if reported != cur {
            let w = json!({"partition": part, "reported_current_offset": reported, "expected": cur, "source": src});
            return Err(viol("C01", "current-offset", src, self.witness(w)));
        }
        Ok(())
    }

    /// Full scan of a partition by windows; returns every offset seen.
    pub async fn scan_offsets(&mut self, part: u32) -> R<Vec<u64>> {
        let cur = self.part(part).unwrap().cur();
        let n = self.part(part).unwrap().msgs.len() as u64;
        let mut seen = vec![];
        let who = Consumer::new(Identifier::numeric(9999).unwrap());
        let mut start = 0u64;
        let win = 50u64;
        let ctx = json!({"scan": part});
        while start <= cur && n > 0 {
            let r = self.raw_poll(part, &PollingStrategy::offset(start), win as u32, &who, false).await?;
            let r = match r {
                Ok(r) => r,
                Err(e) => {
                    let w = json!({"partition": part, "scan_from": start, "error": e.to_string()});
                    let tag = format!("poll-error/{}", self.mode_tag(true));
                    return Err(viol("C02", "slice", &tag, self.witness(w)));
                }
            };
            for m in &r.messages {
                self.check_message(part, m, &ctx)?;
                if !seen.contains(&m.offset) {
                    seen.push(m.offset);
                }
            }
            start += win;
        }
        seen.sort();
        Ok(seen)
    }

    /// Checkpoint: counters, current offsets and the full content of every partition.
    pub async fn checkpoint(&mut self, why: &'static str) -> R<()> {
        let t = self.get_topic().await?;
        let ids: Vec<u32> = self.parts.iter().map(|p| p.id).collect();
        self.eval("C16:partitions-count");
        if t.partitions_count as usize != ids.len() || t.partitions.len() != ids.len() {
            let w = json!({"why": why, "reported": t.partitions_count, "expected": ids.len()});
            return Err(viol("C16", "partitions-count", why, self.witness(w)));
        }
        let mut total = 0u64;
        for id in ids {
            let Some(pd) = t.partitions.iter().find(|x| x.id == id) else {
                let w = json!({"why": why, "missing_partition": id});
                return Err(viol("C16", "partitions-count", why, self.witness(w)));
            };
            self.check_current_offset(id, pd.current_offset, "get_topic")?;
            let (cur, earliest, len) = {
                let p = self.part(id).unwrap();
                (p.cur(), p.earliest, p.msgs.len() as u64)
            };
            let exp: Vec<u64> = (earliest..len).collect();
            let mut seen = self.scan_offsets(id).await?;
            if self.cfg.no_wait && why != "after-restart" {
                // bounded progress: acknowledged no-wait writes must become readable
                let mut tries = 0;
                while seen != exp && seen.len() < exp.len() && exp.starts_with(&seen) && tries < NOWAIT_RETRIES {
                    tries += 1;
                    self.event("nowait_lag_observed");
                    tokio::time::sleep(Duration::from_millis(2)).await;
                    seen = self.scan_offsets(id).await?;
                }
            }
            self.eval("C02:slice");
            if seen != exp {
                let kind = classify(&seen, &exp);
                let mode = self.mode_tag(why == "after-restart");
                let w = json!({"why": why, "partition": id, "scan_expected": compress(&exp), "scan_got": compress(&seen), "cur": cur});
                let (prop, clause) = if why == "after-restart" { ("C03", "restart-scan") } else { ("C02", "slice") };
                let kind = if self.cfg.no_wait && !(seen.len() < exp.len() && exp.starts_with(&seen)) { "not-prefix-inflight" } else { kind };
                return Err(viol(prop, clause, &format!("scan-{kind}/{mode}"), self.witness(w)));
            }
            self.eval("C16:messages-count");
            let retained = len - earliest.min(len);
            if pd.messages_count != retained {
                let w = json!({"why": why, "partition": id, "reported_messages_count": pd.messages_count, "retained": retained});
                return Err(viol("C16", "messages-count", why, self.witness(w)));
            }
            total += retained;
        }
        self.eval("C16:topic-sum");
        let psum: u64 = t.partitions.iter().map(|p| p.size.as_bytes_u64()).sum();
        if t.messages_count != total || t.size.as_bytes_u64() != psum {
            let w = json!({"why": why, "topic_messages_count": t.messages_count, "sum_partitions": total, "topic_size": t.size.as_bytes_u64(), "sum_sizes": psum});
            return Err(viol("C16", "topic-sum", why, self.witness(w)));
        }
        if self.cfg.encryption {
            self.scan_files_for_cleartext(why)?;
        }
        if self.deep {
            // re-read the topic: sizes may have moved between the first read and now only through our own ops (none)
            let t = self.get_topic().await?;
            let sd = match timed("get_stream", self.c().get_stream(&self.stream)).await? {
                Ok(Some(s)) => s,
                other => return Err(Stop::Inconclusive(format!("get_stream: {other:?}"))),
            };
            let two = Identifier::numeric(SIB).unwrap();
            let sib = if self.sibling {
                match timed("get_topic", self.c().get_topic(&self.stream, &two)).await? {
                    Ok(Some(x)) => Some(x),
                    other => return Err(Stop::Inconclusive(format!("get sibling: {other:?}"))),
                }
            } else {
                None
            };
            let (sib_m, sib_s, sib_seg) = sib.as_ref().map(|x| (x.messages_count, x.size.as_bytes_u64(), x.partitions.iter().map(|p| p.segments_count).sum::<u32>())).unwrap_or((0, 0, 0));
            let ntop = if self.sibling { 2 } else { 1 };
            if self.sibling {
                self.eval("C16:sibling-untouched");
                if sib_m != self.sib_msgs {
                    let w = json!({"why": why, "sibling_topic_messages": sib_m, "sent_to_sibling": self.sib_msgs});
                    let mode = self.mode_tag(why == "after-restart");
                    return Err(viol("C16", "sibling-untouched", &format!("{why}/{mode}"), self.witness(w)));
                }
            }
            self.eval("C16:stream-sum");
            if sd.messages_count != t.messages_count + sib_m || sd.size.as_bytes_u64() != t.size.as_bytes_u64() + sib_s || sd.topics_count != ntop {
                let w = json!({"why": why, "stream": {"messages": sd.messages_count, "size": sd.size.as_bytes_u64(), "topics": sd.topics_count},
                    "topic": {"messages": t.messages_count, "size": t.size.as_bytes_u64()}});
                return Err(viol("C16", "stream-sum", why, self.witness(w)));
            }
            let st = match timed("get_stats", self.c().get_stats()).await? {
                Ok(s) => s,
                Err(e) => return Err(Stop::Inconclusive(format!("get_stats: {e}"))),
            };
            self.eval("C16:stats");
            let segs: u32 = t.partitions.iter().map(|p| p.segments_count).sum();
            let groups = self.groups_alive.iter().filter(|g| **g).count() as u32;
            let ok = st.streams_count == 1
                && st.topics_count == ntop
                && st.partitions_count == t.partitions_count + if self.sibling { 1 } else { 0 }
                && st.segments_count == segs + sib_seg
                && st.messages_count == t.messages_count + sib_m
                && st.messages_size_bytes.as_bytes_u64() == t.size.as_bytes_u64() + sib_s
                && st.consumer_groups_count == groups;
            if !ok {
                let w = json!({"why": why, "stats": {"streams": st.streams_count, "topics": st.topics_count, "partitions": st.partitions_count, "segments": st.segments_count,
                    "messages": st.messages_count, "size": st.messages_size_bytes.as_bytes_u64(), "groups": st.consumer_groups_count},
                    "expected": {"streams": 1, "topics": ntop, "partitions": t.partitions_count + if self.sibling { 1 } else { 0 }, "segments": segs + sib_seg, "messages": t.messages_count + sib_m, "size": t.size.as_bytes_u64() + sib_s, "groups": groups}});
                return Err(viol("C16", "stats", why, self.witness(w)));
            }
        }
        Ok(())
    }

    /// C19 `no-cleartext`: no payload marker and no journalled name may occur in any file under the data directory.
    pub fn scan_files_for_cleartext(&mut self, why: &str) -> R<()> {
        let mut markers: Vec<Vec<u8>> = vec![self.stream_name.clone().into_bytes(), self.topic_name.clone().into_bytes()];
        for g in GROUPS.iter() {
            if g.1.len() >= 8 {
                markers.push(g.1.as_bytes().to_vec());
            }
        }
        for p in &self.parts {
            for r in &p.msgs {
                if r.payload.len() >= 13 {
                    let n = r.payload.iter().position(|c| *c == b'|').unwrap_or(12) + 1;
                    // the tag plus a few of the random bytes that follow it
                    markers.push(r.payload[..(n + 6).min(r.payload.len())].to_vec());
                }
            }
        }
        markers.retain(|m| m.len() >= 8);
        let mut files = vec![];
        collect_files(&self.dir, &mut files);
        let mut bytes_scanned = 0u64;
        for f in &files {
            let Ok(data) = std::fs::read(f) else { continue };
            bytes_scanned += data.len() as u64;
            for m in &markers {
                self.eval("C19:no-cleartext");
                if find(&data, m).is_some() {
                    let w = json!({"why": why, "file": f.to_string_lossy(), "marker": String::from_utf8_lossy(m)});
                    let kind = if f.to_string_lossy().contains("/state/") { "journal" } else { "data-file" };
                    return Err(viol("C19", "no-cleartext", kind, self.witness(w)));
                }
            }
        }
        *self.ev.entry("cleartext_scan_files".into()).or_insert(0) += files.len() as u64;
        *self.ev.entry("cleartext_scan_bytes".into()).or_insert(0) += bytes_scanned;
        Ok(())
    }

    // -----------------------------------------------------------------------------------------
    // operations

    pub async fn exec(&mut self, op: Op) -> R<()> {
        if std::env::var("VERIF_TRACE").is_ok() {
            let st: Vec<String> = self.parts.iter().map(|p| format!("p{}:len={},e={},offs={:?}", p.id, p.msgs.len(), p.earliest, p.offs)).collect();
            eprintln!("[trace] #{} {:?}   model: {}", self.ops.len(), op, st.join(" "));
        }
        self.ops.push(op.clone());
        *self.opsk.entry(op.kind().to_string()).or_insert(0) += 1;
        let r = self.exec_inner(op).await;
        // an unexpected server-side panic during any well-formed operation
        let panics = take_server_panics();
        if !panics.is_empty() && r.is_ok() {
            let w = json!({"panics": panics});
            return Err(viol("C06", "no-panic", "data-op", self.witness(w)));
        }
        r
    }

    async fn exec_inner(&mut self, op: Op) -> R<()> {
        match op {
            Op::Send { part, n, sz, seq, headers, dups, key, balanced } => self.op_send(part, n, sz, seq, headers, dups, key, balanced).await,
            Op::SendBad { kind, n, seq } => self.op_send_bad(kind, n, seq).await,
            Op::Poll { part, kind, value, count, who, commit } => self.op_poll(part, kind, value, count, who, commit).await,
            Op::Flush { part, fsync } => {
                let r = timed("flush", self.c().flush_unsaved_buffer(&self.stream, &self.topic, part, fsync)).await?;
                if let Err(e) = r {
                    let w = json!({"flush_error": e.to_string(), "partition": part});
                    return Err(viol("C06", "valid-refused", "flush", self.witness(w)));
                }
                let p = self.part_mut(part);
                p.persisted = p.msgs.len() as u64;
                p.unsaved = 0;
                self.shape.push("flush");
                Ok(())
            }
            Op::SaveTick { fsync } => {
                let r = timed("save_tick", self.inst.as_ref().unwrap().save_tick(fsync)).await?;
                r.map_err(Stop::Inconclusive)?;
                for p in self.parts.iter_mut() {
                    p.persisted = p.msgs.len() as u64;
                    p.unsaved = 0;
                }
                self.shape.push("save");
                Ok(())
            }
            Op::Restart { mode, drop_index, quiesce } => self.op_restart(mode, drop_index, quiesce).await,
            Op::Purge => self.op_purge().await,
            Op::Store { part, who, offset } => self.op_store(part, who, offset).await,
            Op::GetOffset { part, who } => self.op_get_offset(part, who).await,
            Op::DeleteOffset { part, who } => self.op_delete_offset(part, who).await,
            Op::Checkpoint => self.checkpoint("checkpoint").await,
            Op::SendSibling { n, seq } => self.op_send_sibling(n, seq).await,
            Op::AdvanceClock { us } => {
                iggy::utils::timestamp::verif_clock::advance_micros(us);
                self.clock_us += us;
                Ok(())
            }
            Op::Maintain | Op::UpdateExpiry { .. } | Op::UpdateMaxSize { .. } | Op::CreatePartitions { .. }
            | Op::DeletePartitions { .. } | Op::DeleteGroup { .. } | Op::RestartKey { .. } | Op::CorruptCiphertext => crate::world_ext::exec_ext(self, op).await,
        }
    }

    #[allow(clippy::too_many_arguments)]
    async fn op_send(&mut self, part: u32, n: u32, sz: u32, seq: u64, headers: bool, dups: Vec<(u32, u64)>, key: Option<Vec<u8>>, balanced: bool) -> R<()> {
        // build the batch; `dups` = (position, seq<<20|idx reference) re-uses an earlier id (C18)
        let mut msgs = Vec::with_capacity(n as usize);
        let mut recs = Vec::with_capacity(n as usize);
        let mut near_miss = 0u64;
        for i in 0..n {
            let ov = dups.iter().find(|(pos, _)| *pos == i).map(|(_, r)| {
                let (variant, low) = (*r >> 62, *r & ((1u64 << 62) - 1));
                let (hi, lo) = (self.hist, low);
                let (hi, lo) = match variant {
                    0 => (hi, lo),                  // a true repeat of an earlier id
                    1 => (hi ^ (1u64 << 63), lo),   // same low half, other high half
                    2 => (lo, hi),                  // halves swapped (equal under any symmetric fold)
                    _ => (hi ^ 1, lo ^ 1),          // equal under an xor fold of the halves
                };
                if variant != 0 {
                    near_miss += 1;
                }
                ((hi as u128) << 64) | lo as u128
            });
            let (m, r) = self.make_message(seq, i, sz, headers, ov);
            msgs.push(m);
            recs.push(r);
        }
        for _ in 0..near_miss {
            self.event("near_miss_id_sent");
        }
        let partitioning = if balanced {
            Partitioning::balanced()
        } else if let Some(k) = &key {
            match Partitioning::messages_key(k) {
                Ok(p) => p,
                Err(e) => {
                    // keys of 1..=255 bytes are legal: a key the SDK refuses to build never reaches "the same partition"
                    self.eval("C17:exists");
                    let w = json!({"key_length": k.len(), "error": e.to_string(), "note": "Partitioning::messages_key refused a key of legal length"});
                    return Err(viol("C17", "exists", "legal-key-refused", self.witness(w)));
                }
            }
        } else {
            Partitioning::partition_id(part)
        };
        // counters before (C17: exactly one partition grows; C15: gate)
        let before = self.get_topic().await?;
        let res = timed("send", self.c().send_messages(&self.stream, &self.topic, &partitioning, &mut msgs)).await?;
        let max = self.effective_max_size();
        let full = max != 0 && before.size.as_bytes_u64() >= max;
        self.eval("C15:gate");
        match &res {
            Err(e) if class_of(e) == "topic_full" => {
                if !(full && !self.cfg.delete_oldest) {
                    let w = json!({"size": before.size.as_bytes_u64(), "limit": max, "delete_oldest": self.cfg.delete_oldest, "send": "refused topic_full"});
                    let trig = if full { "refused-with-delete-oldest" } else { "refused-below-limit" };
                    return Err(viol("C15", "gate", trig, self.witness(w)));
                }
                self.event("send_refused_topic_full");
                self.shape.push("send_full");
                // a refused send must change nothing
                let after = self.get_topic().await?;
                self.eval("C15:refused-changes-nothing");
                if !same_counters(&before, &after) {
                    let w = json!({"before": counters(&before), "after": counters(&after)});
                    return Err(viol("C15", "refused-changes-nothing", "counters", self.witness(w)));
                }
                return Ok(());
            }
            Err(e) => {
                // a balanced or keyed send picks its own partition: when it fails because that partition does not exist,
                // the routing rule (C17: the chosen partition always exists) is what broke
                if (balanced || key.is_some()) && matches!(e, IggyError::PartitionNotFound(..)) && !self.parts.is_empty() {
                    self.eval("C17:exists");
                    let w = json!({"send_error": e.to_string(), "balanced": balanced, "key": key, "partitions": self.parts.len(), "n": n});
                    return Err(viol("C17", "exists", if balanced { "balanced-chose-missing-partition" } else { "key-chose-missing-partition" }, self.witness(w)));
                }
                let w = json!({"send_error": e.to_string(), "partition": part, "n": n});
                return Err(viol("C06", "valid-refused", "send", self.witness(w)));
            }
            Ok(()) => {
                if full && !self.cfg.delete_oldest {
                    let w = json!({"size": before.size.as_bytes_u64(), "limit": max, "delete_oldest": false, "send": "accepted"});
                    return Err(viol("C15", "gate", "accepted-at-limit", self.witness(w)));
                }
            }
        }
        let after = self.get_topic().await?;
        // which partition grew?
        self.eval("C17:one-partition");
        let mut grown = vec![];
        for pa in &after.partitions {
            let b = before.partitions.iter().find(|x| x.id == pa.id).map(|x| x.messages_count).unwrap_or(0);
            if pa.messages_count != b {
                grown.push((pa.id, pa.messages_count as i64 - b as i64));
            }
        }
        if !dups.is_empty() || self.cfg.dedup {
            self.eval(if self.cfg.dedup { "C18:dedup-count" } else { "C18:dedup-off-stores-all" });
        }
        // model: which messages are accepted (dedup drops repeats)
        let mut accepted: Vec<Rec> = vec![];
        let target: u32 = if balanced || key.is_some() {
            match grown.first() {
                Some(g) => g.0,
                None => {
                    let w = json!({"send": "acked but no partition grew", "n": n, "balanced": balanced, "key": key});
                    return Err(viol("C17", "one-partition", "none-grew", self.witness(w)));
                }
            }
        } else {
            part
        };
        if self.cfg.dedup {
            let known: Vec<u128> = self.part(target).map(|p| p.msgs.iter().map(|r| r.id).collect()).unwrap_or_default();
            let at_restart = self.len_at_restart.get(&target).copied();
            for r in recs {
                if let Some(pos) = known.iter().position(|k| *k == r.id) {
                    self.event("dedup_dropped");
                    self.event("dup_across_batches");
                    if at_restart.map(|l| (pos as u64) < l).unwrap_or(false) {
                        self.event("dup_across_restart");
                        self.shape.push("dup_across_restart");
                    }
                    continue;
                }
                if accepted.iter().any(|a| a.id == r.id) {
                    self.event("dedup_dropped");
                    self.event("dup_within_batch");
                    self.shape.push("dup_within_batch");
                    continue;
                }
                accepted.push(r);
            }
        } else {
            if !dups.is_empty() {
                self.event("dups_with_dedup_off");
            }
            accepted = recs;
        }
        let exp_growth = accepted.len() as i64;
        let ok_growth = if exp_growth == 0 { grown.is_empty() } else { grown.len() == 1 && grown[0] == (target, exp_growth) };
        if !ok_growth {
            let w = json!({"grown": grown, "expected_partition": target, "expected_growth": exp_growth, "balanced": balanced, "key": key});
            let prop = if !dups.is_empty() || self.cfg.dedup { "C18" } else { "C17" };
            let clause = if prop == "C18" { if self.cfg.dedup { "dedup-count" } else { "dedup-off-stores-all" } } else { "one-partition" };
            return Err(viol(prop, clause, "growth", self.witness(w)));
        }
        if self.part(target).is_none() {
            let w = json!({"grown": grown, "note": "messages landed in a partition that does not exist in the model"});
            return Err(viol("C17", "exists", "unknown-partition", self.witness(w)));
        }
        if balanced {
            self.eval("C17:rotation");
            if let Some(exp) = self.rr_next {
                if exp != target {
                    let w = json!({"balanced_target": target, "expected_rotation": exp, "partitions": self.parts.len()});
                    return Err(viol("C17", "rotation", "not-successor", self.witness(w)));
                }
            }
            let pc = self.parts.len() as u32;
            self.rr_next = Some(if target >= pc { 1 } else { target + 1 });
            self.event("balanced_send");
        }
        if let Some(k) = &key {
            self.eval("C17:key-stable");
            let pc = self.parts.len() as u32;
            if let Some(prev) = self.key_memo.get(&(k.clone(), pc)) {
                if *prev != target {
                    let w = json!({"key": k, "partitions": pc, "first": prev, "now": target});
                    return Err(viol("C17", "key-stable", "moved", self.witness(w)));
                }
                self.event("key_repeat");
            } else {
                self.key_memo.insert((k.clone(), pc), target);
            }
        }
        let first_new = self.part(target).unwrap().msgs.len() as u64;
        let na = accepted.len() as u32;
        {
            let save_thr = self.cfg.messages_required_to_save;
            let p = self.part_mut(target);
            if p.restarted && p.first_after_restart.is_none() && na > 0 {
                p.first_after_restart = Some(first_new);
            }
            p.msgs.extend(accepted);
            p.unsaved += na;
            if p.unsaved >= save_thr {
                p.persisted = p.msgs.len() as u64;
                p.unsaved = 0;
            }
        }
        if na > 0 && self.retention_active && self.part(target).map(|p| p.earliest > 0).unwrap_or(false) {
            self.event("send_after_retention");
            self.shape.push("send_after_retention");
        }
        if na > 0 {
            let (restarted, far) = {
                let p = self.part(target).unwrap();
                (p.restarted, p.first_after_restart)
            };
            if restarted && far == Some(first_new) {
                self.event("send_after_restart");
                self.shape.push("send_after_restart");
            } else {
                self.shape.push("send");
            }
        }
        // reported current offset right after the send
        let pd = after.partitions.iter().find(|x| x.id == target).unwrap();
        self.check_current_offset(target, pd.current_offset, "get_topic-after-send")?;
        Ok(())
    }

    async fn op_send_bad(&mut self, kind: BadSend, n: u32, seq: u64) -> R<()> {
        let mut msgs = vec![];
        for i in 0..n {
            msgs.push(self.make_message(seq, i, 40, false, None).0);
        }
        let before = self.get_topic().await?;
        let pc = self.parts.len() as u32;
        let (s, t, p) = match kind {
            BadSend::PartitionZero => (self.stream.clone(), self.topic.clone(), Partitioning::partition_id(0)),
            BadSend::PartitionBeyond => (self.stream.clone(), self.topic.clone(), Partitioning::partition_id(pc + 1)),
            BadSend::PartitionMax => (self.stream.clone(), self.topic.clone(), Partitioning::partition_id(u32::MAX)),
            BadSend::UnknownTopic => (self.stream.clone(), Identifier::numeric(77).unwrap(), Partitioning::partition_id(1)),
            BadSend::UnknownStream => (Identifier::numeric(77).unwrap(), self.topic.clone(), Partitioning::partition_id(1)),
        };
        let res = timed("send_bad", self.c().send_messages(&s, &t, &p, &mut msgs)).await?;
        self.eval("C17:missing-partition-fails");
        if res.is_ok() {
            let w = json!({"bad_send": format!("{kind:?}"), "result": "accepted"});
            return Err(viol("C17", "missing-partition-fails", "accepted", self.witness(w)));
        }
        let after = self.get_topic().await?;
        self.eval("C01:rejected-consumes-nothing");
        if !same_counters(&before, &after) {
            let w = json!({"bad_send": format!("{kind:?}"), "before": counters(&before), "after": counters(&after)});
            return Err(viol("C01", "rejected-consumes-nothing", "counters", self.witness(w)));
        }
        self.event("rejected_send");
        self.shape.push("send_rejected");
        Ok(())
    }

    async fn op_poll(&mut self, part: u32, kind: PollKind, value: u64, count: u32, who: Ident, commit: bool) -> R<()> {
        let Some(p) = self.part(part) else { return Ok(()) };
        if who.is_group() {
            if let Ident::G(id) = who.canon() {
                let idx = GROUPS.iter().position(|g| g.0 == id).unwrap();
                if !self.groups_alive[idx] {
                    return Ok(());
                }
            }
        }
        let len = p.msgs.len() as u64;
        let cur = p.cur();
        let e = p.earliest;
        let stored = p.offs.get(&who.canon()).copied();
        let strat = match kind {
            PollKind::Offset => PollingStrategy::offset(value),
            PollKind::First => PollingStrategy::first(),
            PollKind::Last => PollingStrategy::last(),
            PollKind::Next => PollingStrategy::next(),
            PollKind::Timestamp => PollingStrategy::timestamp(IggyTimestamp::from(value)),
        };
        let cons = who.consumer();
        let res = self.raw_poll(part, &strat, count, &cons, commit).await?;
        let got = match res {
            Ok(g) => g,
            Err(err) => {
                let w = json!({"poll": format!("{kind:?}"), "value": value, "count": count, "error": err.to_string()});
                let tag = format!("poll-error/{}", self.mode_tag(true));
                    return Err(viol("C02", "slice", &tag, self.witness(w)));
            }
        };
        let ctx = json!({"poll": format!("{kind:?}"), "value": value, "count": count, "who": format!("{who:?}"), "got": Self::describe(&got.messages)});
        if std::env::var("VERIF_TRACE").is_ok() {
            eprintln!("[trace]    -> {ctx}  stored={stored:?}");
        }
        if got.partition_id != part {
            let w = json!({"ctx": ctx, "reported_partition": got.partition_id, "asked": part});
            return Err(viol("C02", "slice", "wrong-partition", self.witness(w)));
        }
        self.check_current_offset(part, got.current_offset, "polled.current_offset")?;
        let n = count as u64;
        // expected window [lo, hi]
        let (lo, hi, empty) = match kind {
            PollKind::Offset => (value.max(e), (value.saturating_add(n - 1)).min(cur), len == 0 || value > cur),
            PollKind::First => (e, (e + n - 1).min(cur), len == 0),
            PollKind::Last => {
                let avail = len - e.min(len);
                let k = n.min(avail);
                (len - k, cur, len == 0 || k == 0)
            }
            PollKind::Next => match stored {
                None => (e, (e + n - 1).min(cur), len == 0),
                Some(s) => ((s + 1).max(e), (s.saturating_add(n)).min(cur), len == 0 || s >= cur),
            },
            PollKind::Timestamp => {
                // first n messages (offset order) with ts >= value; needs learned, monotone timestamps
                let p = self.part(part).unwrap();
                let all_known = p.msgs[e.min(len) as usize..].iter().all(|r| r.ts.is_some());
                let mono = p.msgs[e.min(len) as usize..].windows(2).all(|w| w[0].ts <= w[1].ts);
                if !all_known || !mono {
                    self.event("timestamp_poll_skipped_non_monotone_or_unknown");
                    for m in &got.messages {
                        self.check_message(part, m, &ctx)?;
                    }
                    return Ok(());
                }
                let first = p.msgs.iter().enumerate().skip(e.min(len) as usize).find(|(_, r)| r.ts.unwrap() >= value).map(|(i, _)| i as u64);
                match first {
                    None => (1, 0, true),
                    Some(f) => (f, (f + n - 1).min(cur), false),
                }
            }
        };
        // below-earliest reads are judged by C14's lenient rule
        let below = matches!(kind, PollKind::Offset) && value < e || matches!(kind, PollKind::Next) && stored.map(|s| s + 1 < e).unwrap_or(false);
        if below && self.retention_active {
            crate::world_ext::check_below_earliest(self, part, &got, value, count, ctx).await?;
            if commit && !got.messages.is_empty() {
                let last = got.messages.last().unwrap().offset;
                self.part_mut(part).offs.insert(who.canon(), last);
                self.event("auto_commit");
                self.verify_offsets(part, "after-auto-commit").await?;
            }
            return Ok(());
        }
        // coverage classes
        if !(empty || lo > hi) {
            let tc = self.tier_class(part, lo, hi);
            self.event(&format!("poll_tier_{tc}"));
            if tc == "disk+buffer" {
                self.shape.push("poll_mixed");
            }
            let (restarted, far) = {
                let p = self.part(part).unwrap();
                (p.restarted, p.first_after_restart)
            };
            if restarted {
                self.event("poll_after_reload");
                if let Some(f) = far {
                    if lo < f && hi >= f {
                        self.event("poll_spanning_restart_point");
                        self.shape.push("poll_span_restart");
                    }
                }
            }
        } else {
            self.event("poll_expected_empty");
        }
        let mut got = got;
        let mut tries = 0u32;
        loop {
            let exact = self.check_slice(part, &got, lo, hi, empty, ctx.clone(), self.cfg.no_wait)?;
            if exact {
                break;
            }
            // no-wait: a prefix was returned while acknowledged writes may still be in flight.
            self.event("nowait_lag_observed");
            if commit {
                // the poll committed what it returned; re-polling would change the state
                break;
            }
            tries += 1;
            if tries > NOWAIT_RETRIES {
                let got_offs: Vec<u64> = got.messages.iter().map(|m| m.offset).collect();
                let w = json!({"ctx": ctx, "partition": part, "expected": format!("[{lo}..{hi}]"), "got": compress(&got_offs), "retries": tries});
                return Err(viol("C02", "slice", "short-after-quiescence/nowait", self.witness(w)));
            }
            tokio::time::sleep(Duration::from_millis(2)).await;
            got = match self.raw_poll(part, &strat, count, &cons, false).await? {
                Ok(g) => g,
                Err(err) => {
                    let w = json!({"ctx": ctx, "error": err.to_string()});
                    let tag = format!("poll-error/{}", self.mode_tag(true));
                    return Err(viol("C02", "slice", &tag, self.witness(w)));
                }
            };
        }
        if matches!(kind, PollKind::Next) {
            self.eval("C07:next-after-stored");
        }
        if commit && !got.messages.is_empty() {
            let last = got.messages.last().unwrap().offset;
            self.part_mut(part).offs.insert(who.canon(), last);
            self.event("auto_commit");
            self.shape.push("auto_commit");
            // read back
            self.verify_offsets(part, "after-auto-commit").await?;
        }
        Ok(())
    }

    /// Reads back the stored offset of every identity on one partition (isolation oracle, C07).
    pub async fn verify_offsets(&mut self, part: u32, why: &'static str) -> R<()> {
        for who in Ident::all() {
            if let Ident::G(id) = who.canon() {
                let idx = GROUPS.iter().position(|g| g.0 == id).unwrap();
                if !self.groups_alive[idx] {
                    continue;
                }
            }
            let r = timed("get_consumer_offset", self.c().get_consumer_offset(&who.consumer(), &self.stream, &self.topic, Some(part))).await?;
            self.eval("C07:get-equals-last-stored");
            let exp = self.part(part).unwrap().offs.get(&who.canon()).copied();
            let got = match r {
                Ok(o) => o.map(|x| x.stored_offset),
                Err(e) if class_of(&e) == "not_found" => None,
                Err(e) => {
                    let w = json!({"why": why, "who": format!("{who:?}"), "partition": part, "error": e.to_string()});
                    return Err(viol("C07", "get-equals-last-stored", "error", self.witness(w)));
                }
            };
            if got != exp {
                let w = json!({"why": why, "who": format!("{who:?}"), "partition": part, "got": got, "expected": exp,
                    "all_model_offsets": format!("{:?}", self.part(part).unwrap().offs)});
                let trig = match (got, exp) {
                    (Some(_), None) => "visible-but-never-stored",
                    (None, Some(_)) => "lost",
                    _ => "different-value",
                };
                let kindtag = if who.is_group() { "group" } else { "consumer" };
                return Err(viol("C07", "get-equals-last-stored", &format!("{trig}/{kindtag}/{why}"), self.witness(w)));
            }
        }
        Ok(())
    }

    pub async fn verify_all_offsets(&mut self, why: &'static str) -> R<()> {
        let ids: Vec<u32> = self.parts.iter().map(|p| p.id).collect();
        for id in ids {
            self.verify_offsets(id, why).await?;
        }
        Ok(())
    }

    fn group_alive(&self, who: Ident) -> bool {
        if let Ident::G(id) = who.canon() {
            let idx = GROUPS.iter().position(|g| g.0 == id).unwrap();
            return self.groups_alive[idx];
        }
        true
    }

    async fn op_store(&mut self, part: u32, who: Ident, offset: u64) -> R<()> {
        if self.part(part).is_none() || !self.group_alive(who) {
            return Ok(());
        }
        let cur = self.part(part).unwrap().cur();
        let r = timed("store_offset", self.c().store_consumer_offset(&who.consumer(), &self.stream, &self.topic, Some(part), offset)).await?;
        self.eval("C07:store-bound");
        match r {
            Ok(()) => {
                if offset > cur {
                    let w = json!({"store": offset, "current_offset": cur, "who": format!("{who:?}"), "result": "accepted"});
                    return Err(viol("C07", "store-bound", "beyond-current-accepted", self.witness(w)));
                }
                self.part_mut(part).offs.insert(who.canon(), offset);
                self.shape.push("store");
            }
            Err(e) => {
                if offset <= cur {
                    let w = json!({"store": offset, "current_offset": cur, "who": format!("{who:?}"), "error": e.to_string()});
                    return Err(viol("C07", "store-bound", "valid-store-refused", self.witness(w)));
                }
                self.event("store_beyond_refused");
                self.shape.push("store_refused");
            }
        }
        self.verify_all_offsets("after-store").await
    }

    async fn op_get_offset(&mut self, part: u32, _who: Ident) -> R<()> {
        if self.part(part).is_none() {
            return Ok(());
        }
        self.verify_offsets(part, "get").await
    }

    async fn op_delete_offset(&mut self, part: u32, who: Ident) -> R<()> {
        if self.part(part).is_none() || !self.group_alive(who) {
            return Ok(());
        }
        let had = self.part(part).unwrap().offs.contains_key(&who.canon());
        let r = timed("delete_offset", self.c().delete_consumer_offset(&who.consumer(), &self.stream, &self.topic, Some(part))).await?;
        self.eval("C07:delete");
        match r {
            Ok(()) => {
                if !had {
                    // deleting something never stored: accepting is harmless, but must not create anything
                    self.event("delete_offset_absent_accepted");
                }
                self.part_mut(part).offs.remove(&who.canon());
                self.shape.push("delete_offset");
            }
            Err(e) => {
                if had {
                    let w = json!({"delete_offset": format!("{who:?}"), "partition": part, "error": e.to_string()});
                    return Err(viol("C07", "delete", "stored-offset-delete-refused", self.witness(w)));
                }
                self.event("delete_offset_absent_refused");
            }
        }
        self.verify_all_offsets("after-delete-offset").await
    }

    async fn op_purge(&mut self) -> R<()> {
        let r = timed("purge_topic", self.c().purge_topic(&self.stream, &self.topic)).await?;
        if let Err(e) = r {
            let w = json!({"purge_error": e.to_string()});
            return Err(viol("C06", "valid-refused", "purge", self.witness(w)));
        }
        for p in self.parts.iter_mut() {
            p.msgs.clear();
            p.earliest = 0;
            p.offs.clear();
            p.persisted = 0;
            p.unsaved = 0;
            p.first_after_restart = None;
            p.restarted = false;
        }
        self.event("purge");
        self.shape.push("purge");
        self.checkpoint("after-purge").await?;
        self.verify_all_offsets("after-purge").await
    }

    async fn op_restart(&mut self, mode: RestartMode, drop_index: bool, quiesce: bool) -> R<()> {
        // before-image (metamorphic part of C03): taken through the API. In no-wait mode the checkpoint
        // waits (bounded) until every acknowledged write is readable; `quiesce == false` skips it so that
        // a graceful shutdown right after no-wait sends is exercised too.
        if quiesce || !self.cfg.no_wait {
            self.checkpoint("before-restart").await?;
        } else {
            self.event("nowait_restart_without_quiescence");
        }
        if self.deep && !self.cfg.no_wait {
            // sizes are compared across the restart: take the "before" figure after a save, because a
            // buffered batch is accounted without its 24-byte header until it is written, and
            // shutdown() itself performs that write
            let r = timed("save_tick", self.inst.as_ref().unwrap().save_tick(false)).await?;
            r.map_err(Stop::Inconclusive)?;
        }
        let before = self.get_topic().await?;
        if mode == RestartMode::FlushAll {
            let ids: Vec<u32> = self.parts.iter().map(|p| p.id).collect();
            for id in ids {
                let r = timed("flush", self.c().flush_unsaved_buffer(&self.stream, &self.topic, id, true)).await?;
                if let Err(e) = r {
                    let w = json!({"flush_error": e.to_string(), "partition": id});
                    return Err(viol("C06", "valid-refused", "flush", self.witness(w)));
                }
            }
        }
        self.client = None;
        self.last_stop = if mode == RestartMode::Shutdown { "shutdown" } else { "flushall" };
        let inst = self.inst.take().unwrap();
        let stop = timed("stop", inst.stop(mode == RestartMode::Shutdown)).await?;
        if let Err(e) = stop {
            let w = json!({"shutdown_error": e});
            return Err(viol("C03", "restart-starts", "shutdown-error", self.witness(w)));
        }
        if drop_index && self.cfg.cache_indexes {
            // delete the index files: exercises the index rebuilder (documented recovery path)
            let mut removed = 0;
            for p in &self.parts {
                let pdir = self.dir.join(format!("streams/{SID}/topics/{TID}/partitions/{}", p.id));
                if let Ok(rd) = std::fs::read_dir(&pdir) {
                    for e in rd.flatten() {
                        if e.path().extension().map(|x| x == "index").unwrap_or(false) {
                            let _ = std::fs::remove_file(e.path());
                            removed += 1;
                        }
                    }
                }
            }
            if removed > 0 {
                self.event("restart_with_index_rebuild");
            }
        }
        self.start_instance().await?;
        self.restarts += 1;
        for p in self.parts.iter_mut() {
            p.persisted = p.msgs.len() as u64;
            p.unsaved = 0;
            p.restarted = true;
            p.first_after_restart = None;
            self.len_at_restart.insert(p.id, p.msgs.len() as u64);
        }
        if self.retention_active && self.parts.iter().any(|p| p.earliest > 0) {
            self.event("restart_after_retention");
            self.shape.push("restart_after_retention");
        }
        self.rr_next = None; // the rotation cursor is not part of the durable state
        self.event(if mode == RestartMode::Shutdown { "restart_shutdown" } else { "restart_flush_all" });
        self.shape.push(if mode == RestartMode::Shutdown { "restart" } else { "restart_flush" });
        // after-image
        let after = self.get_topic().await?;
        self.eval("C03:restart-current-offset");
        for pb in &before.partitions {
            let pa = after.partitions.iter().find(|x| x.id == pb.id);
            let Some(pa) = pa else {
                let w = json!({"partition_missing_after_restart": pb.id});
                return Err(viol("C03", "restart-scan", "partition-missing", self.witness(w)));
            };
            if pa.current_offset != pb.current_offset {
                let w = json!({"partition": pb.id, "current_offset_before": pb.current_offset, "after": pa.current_offset,
                    "messages_before": pb.messages_count, "messages_after": pa.messages_count});
                let mode = self.mode_tag(true);
                return Err(viol("C03", "restart-current-offset", &mode, self.witness(w)));
            }
            if self.deep && !self.cfg.no_wait {
                self.eval("C16:restart-same-size");
                if pa.size != pb.size {
                    let w = json!({"partition": pb.id, "size_before": pb.size.as_bytes_u64(), "size_after": pa.size.as_bytes_u64()});
                    return Err(viol("C16", "restart-same-size", "partition", self.witness(w)));
                }
            }
            self.eval("C16:restart-same-count");
            if pa.messages_count != pb.messages_count || pa.segments_count != pb.segments_count {
                let w = json!({"partition": pb.id, "before": {"messages": pb.messages_count, "segments": pb.segments_count},
                    "after": {"messages": pa.messages_count, "segments": pa.segments_count}});
                let mode = self.mode_tag(true);
                return Err(viol("C16", "restart-same-count", &format!("partition/{mode}"), self.witness(w)));
            }
        }
        self.checkpoint("after-restart").await?;
        self.eval("C07:durable");
        self.verify_all_offsets("after-restart").await
    }
}

pub fn collect_files(dir: &std::path::Path, out: &mut Vec<PathBuf>) {
    if let Ok(rd) = std::fs::read_dir(dir) {
        for e in rd.flatten() {
            let p = e.path();
            if p.is_dir() {
                collect_files(&p, out);
            } else {
                out.push(p);
            }
        }
    }
}

pub fn find(hay: &[u8], needle: &[u8]) -> Option<usize> {
    if needle.is_empty() || hay.len() < needle.len() {
        return None;
    }
    hay.windows(needle.len()).position(|w| w == needle)
}

pub fn head(b: &[u8]) -> String {
    let n = b.iter().position(|c| *c == b'|').unwrap_or(b.len().min(24));
    String::from_utf8_lossy(&b[..n]).to_string()
}

pub fn counters(t: &TopicDetails) -> Value {
    json!({"messages": t.messages_count, "size": t.size.as_bytes_u64(),
        "partitions": t.partitions.iter().map(|p| json!([p.id, p.current_offset, p.messages_count, p.size.as_bytes_u64(), p.segments_count])).collect::<Vec<_>>()})
}

pub fn same_counters(a: &TopicDetails, b: &TopicDetails) -> bool {
    counters(a) == counters(b)
}

/// Compresses an offset list into ranges for witnesses.
pub fn compress(v: &[u64]) -> String {
    if v.is_empty() {
        return "[]".into();
    }
    let mut out = vec![];
    let mut s = v[0];
    let mut p = v[0];
    for &x in &v[1..] {
        if x == p + 1 {
            p = x;
            continue;
        }
        out.push(if s == p { format!("{s}") } else { format!("{s}..{p}") });
        s = x;
        p = x;
    }
    out.push(if s == p { format!("{s}") } else { format!("{s}..{p}") });
    format!("[{}]", out.join(","))
}

/// Kind of mismatch between a result and the expected slice (for signatures).
pub fn classify(got: &[u64], exp: &[u64]) -> &'static str {
    if got.is_empty() && !exp.is_empty() {
        return "empty";
    }
    if !got.is_empty() && exp.is_empty() {
        return "unexpected-messages";
    }
    let mut sorted = got.to_vec();
    sorted.sort();
    let dup = sorted.windows(2).any(|w| w[0] == w[1]);
    if dup {
        return "repeat";
    }
    if got.windows(2).any(|w| w[0] > w[1]) {
        return "order";
    }
    let sub = got.iter().all(|g| exp.contains(g));
    if sub {
        if got.len() < exp.len() && exp.starts_with(got) {
            return "short";
        }
        if got.len() < exp.len() && exp.ends_with(got) {
            return "missing-head";
        }
        return "hole";
    }
    "extra"
}

pub fn shape_hash(class: &str, shape: &[&'static str]) -> String {
    // collapse runs so that "send send send" and "send send" are one shape
    let mut v: Vec<&str> = vec![];
    for s in shape {
        if v.last().map(|l| l == s).unwrap_or(false) {
            continue;
        }
        v.push(s);
    }
    format!("{:016x}", fnv64(format!("{class}#{}", v.join(",")).as_bytes()))
}
