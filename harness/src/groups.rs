//! C08: consumer groups split a topic's partitions exclusively and evenly, members rotate through
//! their share, and next + auto-commit hands every message to the group exactly once, in order.

use crate::checks::Ctx;
use crate::inst::{scratch_root, take_server_panics, CacheMode, ServerInstance, StorageCfg};
use crate::raw::RawClient;
use crate::report::{ShardReport, Violation};
use crate::rng::Rng;
use crate::world::{shape_hash, timed, Stop, R};
use bytes::Bytes;
use iggy::client::*;
use iggy::compression::compression_algorithm::CompressionAlgorithm;
use iggy::consumer::Consumer;
use iggy::identifier::Identifier;
use iggy::messages::poll_messages::PollingStrategy;
use iggy::messages::send_messages::{Message, Partitioning};
use iggy::utils::expiry::IggyExpiry;
use iggy::utils::topic_size::MaxTopicSize;
use serde::{Deserialize, Serialize};
use serde_json::{json, Value};
use std::collections::{BTreeMap, BTreeSet};
use std::time::Duration;

#[derive(Clone, Debug, Serialize, Deserialize)]
pub enum GOp {
    Join { c: usize },
    Leave { c: usize },
    /// the client's socket is dropped without a word
    Disconnect { c: usize },
    Reconnect { c: usize },
    CreatePartitions { n: u32 },
    DeletePartitions { n: u32 },
    Send { part: u32, n: u32 },
    Poll { c: usize, count: u32 },
    /// every joined member polls at the same time
    PollBurst { count: u32 },
    /// the single member of a second group on the same topic polls (its cursor and its share are its own)
    BystanderPoll { count: u32 },
}

impl GOp {
    fn kind(&self) -> &'static str {
        match self {
            GOp::Join { .. } => "join",
            GOp::Leave { .. } => "leave",
            GOp::Disconnect { .. } => "disconnect",
            GOp::Reconnect { .. } => "reconnect",
            GOp::CreatePartitions { .. } => "create_partitions",
            GOp::DeletePartitions { .. } => "delete_partitions",
            GOp::Send { .. } => "send",
            GOp::Poll { .. } => "poll",
            GOp::PollBurst { .. } => "poll_burst",
            GOp::BystanderPoll { .. } => "bystander_poll",
        }
    }
}

struct Member {
    client: Option<RawClient>,
    id: u32,
    joined: bool,
    /// member of the twin group (same topic id and group id in another stream) on its current connection
    twin: bool,
    /// partition ids returned to this member since the last membership / partition-count event
    walk: Vec<u32>,
}

pub struct GWorld {
    hist: u64,
    inst: ServerInstance,
    ctl: RawClient,
    members: Vec<Member>,
    parts: u32,
    /// per partition: messages sent (payloads) and how many the group has been handed
    sent: BTreeMap<u32, Vec<Bytes>>,
    delivered: BTreeMap<u32, u64>,
    /// shares as last reported by the server: member id -> partitions
    shares: BTreeMap<u32, Vec<u32>>,
    ops: Vec<GOp>,
    ev: BTreeMap<String, u64>,
    evals: BTreeMap<String, u64>,
    opsk: BTreeMap<String, u64>,
    shape: Vec<&'static str>,
    seq: u64,
    /// a second group ("bystanders", id 2) with one member of its own
    by: Option<RawClient>,
    by_id: u32,
    delivered2: BTreeMap<u32, u64>,
    /// half of the histories: a second stream holds a topic and a group with the SAME numeric ids (topic 4, group 6); a member joins
    /// that twin group before the main one and stays in it until its connection goes away. Membership bookkeeping keyed by less
    /// than (stream, topic, group) then shows as a ghost member in one of the two groups after a disconnect.
    twin: bool,
}

const TWIN_PARTS: u32 = 3;
fn twin_sid() -> Identifier {
    Identifier::numeric(3).unwrap()
}

fn two() -> Identifier {
    Identifier::numeric(7).unwrap()
}

/// stream 2, topic 4, groups 6 and 7: all different, so that a swapped pair of ids cannot go unnoticed
fn sid() -> Identifier {
    Identifier::numeric(2).unwrap()
}
fn tid() -> Identifier {
    Identifier::numeric(4).unwrap()
}
fn g1() -> Identifier {
    Identifier::numeric(6).unwrap()
}

fn one() -> Identifier {
    Identifier::numeric(1).unwrap()
}

fn gv(w: &GWorld, clause: &str, trig: &str, detail: Value) -> Stop {
    Stop::Violation(Violation {
        property: "C08".into(),
        clause: clause.into(),
        signature: format!("C08:{clause}/{trig}"),
        witness: json!({"history": w.hist, "partitions_at_start": null, "ops": w.ops, "first_bad": {"i": w.ops.len().saturating_sub(1), "detail": detail}, "server_panics": take_server_panics()}),
    })
}

impl GWorld {
    fn event(&mut self, n: &str) {
        *self.ev.entry(n.into()).or_insert(0) += 1;
    }
    fn eval(&mut self, n: &str) {
        *self.evals.entry(n.into()).or_insert(0) += 1;
    }

    async fn connect_member(&mut self, c: usize) -> R<()> {
        let cl = RawClient::connect(self.inst.tcp_addr).await.map_err(Stop::Inconclusive)?;
        timed("login", cl.login_user("iggy", "iggy")).await?.map_err(|e| Stop::Inconclusive(e.to_string()))?;
        let me = timed("get_me", cl.get_me()).await?.map_err(|e| Stop::Inconclusive(e.to_string()))?;
        self.members[c].client = Some(cl);
        self.members[c].id = me.client_id;
        self.members[c].joined = false;
        self.members[c].twin = false;
        self.members[c].walk.clear();
        Ok(())
    }

    /// the twin group (stream 3, topic 4, group 6) lists exactly the connected members that joined it, and splits its partitions among them
    async fn check_twin(&mut self, why: &'static str, wait_for_disconnect: bool) -> R<()> {
        let expected: BTreeSet<u32> = self.members.iter().filter(|m| m.twin && m.client.is_some()).map(|m| m.id).collect();
        let mut tries = 0;
        let gd = loop {
            let gd = match timed("get_group", self.ctl.get_consumer_group(&twin_sid(), &tid(), &g1())).await? {
                Ok(Some(g)) => g,
                other => return Err(Stop::Inconclusive(format!("get_consumer_group twin: {other:?}"))),
            };
            let got: BTreeSet<u32> = gd.members.iter().map(|m| m.id).collect();
            if got == expected || !wait_for_disconnect || tries >= 1000 {
                break gd;
            }
            tries += 1;
            tokio::time::sleep(Duration::from_millis(5)).await;
        };
        let got: BTreeSet<u32> = gd.members.iter().map(|m| m.id).collect();
        self.eval("C08:members-listed");
        if got != expected || gd.members_count as usize != expected.len() {
            let stale: Vec<_> = got.difference(&expected).collect();
            let d = json!({"why": why, "group": "twin (stream 3, topic 4, group 6)", "members_listed": got, "expected": expected, "members_count": gd.members_count, "retries": tries});
            let trig = if !stale.is_empty() { "left-or-disconnected-member-still-listed" } else { "member-missing" };
            return Err(gv(self, "members-listed", &format!("{trig}/twin-group/{why}"), d));
        }
        if !expected.is_empty() {
            self.eval("C08:exclusive-and-complete");
            let mut all: Vec<u32> = gd.members.iter().flat_map(|m| m.partitions.clone()).collect();
            all.sort();
            let want: Vec<u32> = (1..=TWIN_PARTS).collect();
            let sizes: Vec<usize> = gd.members.iter().map(|m| m.partitions.len()).collect();
            let (mn, mx) = (sizes.iter().min().copied().unwrap_or(0), sizes.iter().max().copied().unwrap_or(0));
            if all != want || gd.partitions_count != TWIN_PARTS || mx - mn > 1 {
                let d = json!({"why": why, "group": "twin (stream 3, topic 4, group 6)", "shares": gd.members.iter().map(|m| (m.id, m.partitions.clone())).collect::<Vec<_>>(), "partitions_count": gd.partitions_count});
                return Err(gv(self, "exclusive-and-complete", "twin-group-disturbed", d));
            }
        }
        self.event("twin_group_checked");
        Ok(())
    }

    /// structural invariants after a membership / partition-count event
    async fn check_structure(&mut self, why: &'static str, wait_for_disconnect: bool) -> R<()> {
        let expected: BTreeSet<u32> = self.members.iter().filter(|m| m.joined && m.client.is_some()).map(|m| m.id).collect();
        let mut tries = 0;
        let gd = loop {
            let gd = timed("get_group", self.ctl.get_consumer_group(&sid(), &tid(), &g1())).await?;
            let gd = match gd {
                Ok(Some(g)) => g,
                other => return Err(Stop::Inconclusive(format!("get_consumer_group: {other:?}"))),
            };
            let got: BTreeSet<u32> = gd.members.iter().map(|m| m.id).collect();
            if got == expected || !wait_for_disconnect || tries >= 1000 {
                break gd;
            }
            // the server notices a dropped socket on its next read: bounded wait, counted in retries
            tries += 1;
            tokio::time::sleep(Duration::from_millis(5)).await;
        };
        let got: BTreeSet<u32> = gd.members.iter().map(|m| m.id).collect();
        self.eval("C08:members-listed");
        if got != expected || gd.members_count as usize != expected.len() {
            let stale: Vec<_> = got.difference(&expected).collect();
            let d = json!({"why": why, "members_listed": got, "expected": expected, "members_count": gd.members_count, "retries": tries});
            let trig = if !stale.is_empty() { "left-or-disconnected-member-still-listed" } else { "member-missing" };
            return Err(gv(self, "members-listed", &format!("{trig}/{why}"), d));
        }
        self.eval("C08:partitions-count");
        if gd.partitions_count != self.parts {
            let d = json!({"why": why, "group_partitions_count": gd.partitions_count, "topic_partitions": self.parts});
            return Err(gv(self, "partitions-count", why, d));
        }
        self.shares.clear();
        for m in &gd.members {
            let mut p = m.partitions.clone();
            p.sort();
            self.shares.insert(m.id, p);
        }
        if !expected.is_empty() {
            self.eval("C08:exclusive-and-complete");
            let mut all: Vec<u32> = self.shares.values().flatten().copied().collect();
            all.sort();
            let want: Vec<u32> = (1..=self.parts).collect();
            if all != want {
                let d = json!({"why": why, "shares": self.shares, "partitions": self.parts});
                let dup = all.windows(2).any(|w| w[0] == w[1]);
                return Err(gv(self, "exclusive-and-complete", if dup { "partition-assigned-twice" } else { "partition-unassigned-or-unknown" }, d));
            }
            self.eval("C08:even");
            let sizes: Vec<usize> = self.shares.values().map(|v| v.len()).collect();
            let (mn, mx) = (sizes.iter().min().copied().unwrap_or(0), sizes.iter().max().copied().unwrap_or(0));
            if mx - mn > 1 {
                let d = json!({"why": why, "shares": self.shares});
                return Err(gv(self, "even", "shares-differ-by-more-than-one", d));
            }
            if expected.len() as u32 > self.parts {
                self.event("more_members_than_partitions");
            }
        }
        for m in self.members.iter_mut() {
            m.walk.clear();
        }
        // the other group on the same topic is not disturbed by any of this: one member, all partitions
        if self.by.is_some() {
            self.eval("C08:exclusive-and-complete");
            let g2 = match timed("get_group", self.ctl.get_consumer_group(&sid(), &tid(), &two())).await? {
                Ok(Some(g)) => g,
                other => return Err(Stop::Inconclusive(format!("get_consumer_group 2: {other:?}"))),
            };
            let mut owned: Vec<u32> = g2.members.iter().flat_map(|m| m.partitions.clone()).collect();
            owned.sort();
            let want: Vec<u32> = (1..=self.parts).collect();
            if g2.members.len() != 1 || g2.members[0].id != self.by_id || g2.members_count != 1 || g2.partitions_count != self.parts || owned != want {
                let d = json!({"why": why, "second_group": {"members": g2.members.iter().map(|m| (m.id, m.partitions.clone())).collect::<Vec<_>>(), "members_count": g2.members_count, "partitions_count": g2.partitions_count},
                    "expected_member": self.by_id, "topic_partitions": self.parts});
                return Err(gv(self, "exclusive-and-complete", "second-group-disturbed", d));
            }
        }
        if self.twin {
            self.check_twin(why, wait_for_disconnect).await?;
        }
        Ok(())
    }

    /// the second group's only member polls: served from any partition, strictly after what that group was handed before
    async fn bystander_poll(&mut self, count: u32) -> R<()> {
        let Some(by) = self.by.as_ref() else { return Ok(()) };
        let who = Consumer::group(two());
        let r = timed("poll", by.poll_messages(&sid(), &tid(), None, &who, &PollingStrategy::next(), count, true)).await?;
        let pm = match r {
            Ok(p) => p,
            Err(e) => return Err(gv(self, "valid-refused", "poll", json!({"second_group": true, "error": e.to_string()}))),
        };
        self.eval("C08:exactly-once-in-order");
        let p = pm.partition_id;
        if p == 0 || p > self.parts {
            return Err(gv(self, "served-from-own-share", "second-group-foreign-partition", json!({"served_partition": p, "partitions": self.parts})));
        }
        let next = *self.delivered2.get(&p).unwrap_or(&0);
        let sent = self.sent.get(&p).cloned().unwrap_or_default();
        let offs: Vec<u64> = pm.messages.iter().map(|m| m.offset).collect();
        let want_n = (sent.len() as u64 - next.min(sent.len() as u64)).min(count as u64);
        let want: Vec<u64> = (next..next + want_n).collect();
        if offs != want {
            let d = json!({"second_group": true, "partition": p, "group_already_handed": next, "sent": sent.len(), "expected_offsets": crate::world::compress(&want), "got_offsets": crate::world::compress(&offs),
                "first_group_handed": self.delivered.get(&p)});
            let trig = if offs.first().map(|o| *o < next).unwrap_or(false) { "second-group-delivered-twice" } else { "second-group-skipped-or-short" };
            return Err(gv(self, "exactly-once-in-order", trig, d));
        }
        for (m, off) in pm.messages.iter().zip(want.iter()) {
            if m.payload != sent[*off as usize] {
                return Err(gv(self, "exactly-once-in-order", "wrong-content", json!({"second_group": true, "partition": p, "offset": off})));
            }
        }
        if !offs.is_empty() {
            self.delivered2.insert(p, next + offs.len() as u64);
            self.event("messages_delivered_to_second_group");
        }
        Ok(())
    }

    pub async fn exec(&mut self, op: GOp) -> R<()> {
        self.ops.push(op.clone());
        *self.opsk.entry(op.kind().into()).or_insert(0) += 1;
        let r = self.exec_inner(op).await;
        let panics = take_server_panics();
        if !panics.is_empty() && r.is_ok() {
            return Err(gv(self, "no-panic", "group-op", json!({"panics": panics})));
        }
        r
    }

    async fn exec_inner(&mut self, op: GOp) -> R<()> {
        match op {
            GOp::Join { c } => {
                if self.members[c].client.is_none() {
                    return Ok(());
                }
                if self.twin && !self.members[c].twin {
                    let r = timed("join", self.members[c].client.as_ref().unwrap().join_consumer_group(&twin_sid(), &tid(), &g1())).await?;
                    if let Err(e) = r {
                        return Err(gv(self, "valid-refused", "join-twin-group", json!({"error": e.to_string()})));
                    }
                    self.members[c].twin = true;
                    self.event("join_twin_group");
                }
                let r = timed("join", self.members[c].client.as_ref().unwrap().join_consumer_group(&sid(), &tid(), &g1())).await?;
                if let Err(e) = r {
                    return Err(gv(self, "valid-refused", "join", json!({"error": e.to_string()})));
                }
                self.members[c].joined = true;
                self.event("join");
                self.shape.push("join");
                self.check_structure("after-join", false).await
            }
            GOp::Leave { c } => {
                if self.members[c].client.is_none() || !self.members[c].joined {
                    return Ok(());
                }
                let r = timed("leave", self.members[c].client.as_ref().unwrap().leave_consumer_group(&sid(), &tid(), &g1())).await?;
                if let Err(e) = r {
                    return Err(gv(self, "valid-refused", "leave", json!({"error": e.to_string()})));
                }
                self.members[c].joined = false;
                self.event("leave");
                self.shape.push("leave");
                self.check_structure("after-leave", false).await
            }
            GOp::Disconnect { c } => {
                if self.members[c].client.is_none() {
                    return Ok(());
                }
                let was = self.members[c].joined;
                self.members[c].client = None;
                self.members[c].joined = false;
                if self.members[c].twin {
                    self.event("twin_member_disconnected");
                }
                self.members[c].twin = false;
                if was {
                    self.event("member_disconnected");
                    self.shape.push("disconnect_member");
                }
                self.check_structure("after-disconnect", true).await
            }
            GOp::Reconnect { c } => {
                if self.members[c].client.is_some() {
                    return Ok(());
                }
                self.connect_member(c).await?;
                self.shape.push("reconnect");
                Ok(())
            }
            GOp::CreatePartitions { n } => {
                if self.parts + n > 10 {
                    return Ok(());
                }
                let r = timed("create_partitions", self.ctl.create_partitions(&sid(), &tid(), n)).await?;
                if let Err(e) = r {
                    return Err(gv(self, "valid-refused", "create_partitions", json!({"error": e.to_string()})));
                }
                for p in self.parts + 1..=self.parts + n {
                    self.sent.insert(p, vec![]);
                    self.delivered.insert(p, 0);
                    self.delivered2.insert(p, 0);
                }
                self.parts += n;
                self.event("partitions_created");
                self.shape.push("create_partitions");
                self.check_structure("after-create-partitions", false).await
            }
            GOp::DeletePartitions { n } => {
                let n = n.min(self.parts.saturating_sub(1));
                if n == 0 {
                    return Ok(());
                }
                let r = timed("delete_partitions", self.ctl.delete_partitions(&sid(), &tid(), n)).await?;
                if let Err(e) = r {
                    return Err(gv(self, "valid-refused", "delete_partitions", json!({"error": e.to_string()})));
                }
                for p in (self.parts - n + 1)..=self.parts {
                    self.sent.remove(&p);
                    self.delivered.remove(&p);
                    self.delivered2.remove(&p);
                }
                self.parts -= n;
                self.event("partitions_deleted");
                self.shape.push("delete_partitions");
                self.check_structure("after-delete-partitions", false).await
            }
            GOp::Send { part, n } => {
                let part = ((part - 1) % self.parts) + 1;
                self.seq += 1;
                let mut msgs = vec![];
                let mut pls = vec![];
                for i in 0..n {
                    let p = Bytes::from(format!("{:x}/g{}/{}|group-payload", self.hist & 0xffff_ffff, self.seq, i));
                    pls.push(p.clone());
                    msgs.push(Message::new(Some(((self.hist as u128) << 64) | ((self.seq as u128) << 20) | (i as u128 + 1)), p, None));
                }
                let r = timed("send", self.ctl.send_messages(&sid(), &tid(), &Partitioning::partition_id(part), &mut msgs)).await?;
                if let Err(e) = r {
                    return Err(gv(self, "valid-refused", "send", json!({"error": e.to_string(), "partition": part})));
                }
                self.sent.get_mut(&part).unwrap().extend(pls);
                Ok(())
            }
            GOp::Poll { c, count } => self.poll(c, count).await,
            GOp::PollBurst { count } => self.poll_burst(count).await,
            GOp::BystanderPoll { count } => self.bystander_poll(count).await,
        }
    }

    async fn poll(&mut self, c: usize, count: u32) -> R<()> {
        if self.members[c].client.is_none() || !self.members[c].joined {
            return Ok(());
        }
        let who = Consumer::group(g1());
        let r = timed("poll", self.members[c].client.as_ref().unwrap().poll_messages(&sid(), &tid(), None, &who, &PollingStrategy::next(), count, true)).await?;
        self.judge_poll(c, count, r)
    }

    /// all joined members poll concurrently; their shares are disjoint, so the answers are judged one after another
    async fn poll_burst(&mut self, count: u32) -> R<()> {
        let joined: Vec<usize> = (0..self.members.len()).filter(|i| self.members[*i].joined && self.members[*i].client.is_some()).collect();
        if joined.len() < 2 {
            return Ok(());
        }
        let who = Consumer::group(g1());
        let (s, t) = (sid(), tid());
        let strat = PollingStrategy::next();
        let futs = joined.iter().map(|c| {
            let cl = self.members[*c].client.as_ref().unwrap();
            let (who, s, t, strat) = (&who, &s, &t, &strat);
            async move { timed("poll", cl.poll_messages(s, t, None, who, strat, count, true)).await }
        });
        let results = futures::future::join_all(futs).await;
        self.event("concurrent_poll_burst");
        for (c, r) in joined.into_iter().zip(results) {
            self.judge_poll(c, count, r?)?;
        }
        Ok(())
    }

    fn judge_poll(&mut self, c: usize, count: u32, r: Result<iggy::models::messages::PolledMessages, iggy::error::IggyError>) -> R<()> {
        let pm = match r {
            Ok(p) => p,
            Err(e) => return Err(gv(self, "valid-refused", "poll", json!({"member": c, "error": e.to_string()}))),
        };
        let mid = self.members[c].id;
        let share = self.shares.get(&mid).cloned().unwrap_or_default();
        self.eval("C08:served-from-own-share");
        if share.is_empty() {
            if pm.partition_id != 0 || !pm.messages.is_empty() {
                let d = json!({"member": mid, "share": share, "served_partition": pm.partition_id, "messages": pm.messages.len()});
                return Err(gv(self, "served-from-own-share", "member-without-share-served", d));
            }
            self.event("poll_by_member_without_share");
            return Ok(());
        }
        if !share.contains(&pm.partition_id) {
            let d = json!({"member": mid, "share": share, "served_partition": pm.partition_id, "all_shares": self.shares});
            return Err(gv(self, "served-from-own-share", "foreign-partition", d));
        }
        // rotation: within any |share| consecutive polls every partition of the share appears exactly once
        self.members[c].walk.push(pm.partition_id);
        let walk = self.members[c].walk.clone();
        if walk.len() >= share.len() {
            self.eval("C08:rotation");
            let win: BTreeSet<u32> = walk[walk.len() - share.len()..].iter().copied().collect();
            if win.len() != share.len() {
                let d = json!({"member": mid, "share": share, "partitions_served_in_turn": walk});
                return Err(gv(self, "rotation", "not-each-in-turn", d));
            }
            if share.len() > 1 {
                self.event("rotation_window_checked");
            }
        }
        // delivery: the group as a whole gets each partition's messages once, in offset order
        let p = pm.partition_id;
        let next = *self.delivered.get(&p).unwrap_or(&0);
        let sent = self.sent.get(&p).cloned().unwrap_or_default();
        self.eval("C08:exactly-once-in-order");
        let offs: Vec<u64> = pm.messages.iter().map(|m| m.offset).collect();
        let want_n = (sent.len() as u64 - next.min(sent.len() as u64)).min(count as u64);
        let want: Vec<u64> = (next..next + want_n).collect();
        if offs != want {
            let trig = if offs.first().map(|o| *o < next).unwrap_or(false) {
                "delivered-twice"
            } else if offs.first().map(|o| *o > next).unwrap_or(false) {
                "skipped"
            } else if offs.len() < want.len() {
                "fewer-than-available"
            } else {
                "other"
            };
            let d = json!({"member": mid, "partition": p, "group_already_handed": next, "sent": sent.len(), "expected_offsets": crate::world::compress(&want), "got_offsets": crate::world::compress(&offs)});
            return Err(gv(self, "exactly-once-in-order", trig, d));
        }
        for (m, off) in pm.messages.iter().zip(want.iter()) {
            if m.payload != sent[*off as usize] {
                let d = json!({"member": mid, "partition": p, "offset": off, "got": crate::world::head(&m.payload), "expected": crate::world::head(&sent[*off as usize])});
                return Err(gv(self, "exactly-once-in-order", "wrong-content", d));
            }
        }
        if !offs.is_empty() {
            self.delivered.insert(p, next + offs.len() as u64);
            self.event("messages_delivered_to_group");
        }
        Ok(())
    }

    /// drain: after enough rounds every message of every partition has been handed to the group
    async fn drain(&mut self) -> R<()> {
        let joined: Vec<usize> = (0..self.members.len()).filter(|i| self.members[*i].joined && self.members[*i].client.is_some()).collect();
        if joined.is_empty() {
            return Ok(());
        }
        for _ in 0..(self.parts as usize * 3 + 6) {
            for c in &joined {
                self.ops.push(GOp::Poll { c: *c, count: 1000 });
                self.poll(*c, 1000).await?;
            }
        }
        self.eval("C08:drained-everything");
        for p in 1..=self.parts {
            let d = *self.delivered.get(&p).unwrap_or(&0);
            let s = self.sent.get(&p).map(|v| v.len() as u64).unwrap_or(0);
            if d != s {
                let det = json!({"partition": p, "handed_to_group": d, "sent": s, "shares": self.shares});
                return Err(gv(self, "drained-everything", "messages-never-delivered", det));
            }
        }
        self.event("drained");
        Ok(())
    }
}

fn gen(w: &GWorld, rng: &mut Rng) -> GOp {
    let m = w.members.len();
    let c = rng.below(m as u64) as usize;
    match rng.weighted(&[14, 6, 5, 5, 4, 4, 20, 32, 8, 6]) {
        0 => GOp::Join { c },
        1 => GOp::Leave { c },
        2 => GOp::Disconnect { c },
        3 => GOp::Reconnect { c },
        4 => GOp::CreatePartitions { n: rng.range(1, 2) as u32 },
        5 => GOp::DeletePartitions { n: rng.range(1, 3) as u32 },
        6 => GOp::Send { part: rng.range(1, 10) as u32, n: rng.range(1, 6) as u32 },
        7 => GOp::Poll { c, count: *rng.pick(&[1u32, 1, 2, 3, 10]) },
        8 => GOp::PollBurst { count: *rng.pick(&[1u32, 2, 3, 10]) },
        _ => GOp::BystanderPoll { count: *rng.pick(&[1u32, 2, 5, 10]) },
    }
}

async fn history(hseed: u64, cache: CacheMode, replay_ops: Option<(u32, usize, Vec<GOp>)>) -> (Option<GWorld>, R<()>, u32, usize) {
    let mut rng = Rng::new(hseed);
    let mut cfg = StorageCfg::random(&mut rng);
    cfg.no_wait = false;
    let dir = scratch_root().join(format!("g{:016x}", hseed));
    let (parts, nmem) = match &replay_ops {
        Some((p, m, _)) => (*p, *m),
        None => (rng.range(1, 8) as u32, rng.range(1, 6) as usize),
    };
    let inst = match ServerInstance::start(&dir, &cfg, cache).await {
        Ok(i) => i,
        Err(e) => return (None, Err(Stop::Inconclusive(format!("{e:?}"))), parts, nmem),
    };
    let ctl = match RawClient::connect(inst.tcp_addr).await {
        Ok(c) => c,
        Err(e) => return (None, Err(Stop::Inconclusive(e)), parts, nmem),
    };
    let mut w = GWorld {
        hist: hseed,
        inst,
        ctl,
        members: (0..nmem).map(|_| Member { client: None, id: 0, joined: false, twin: false, walk: vec![] }).collect(),
        parts,
        sent: (1..=parts).map(|p| (p, vec![])).collect(),
        delivered: (1..=parts).map(|p| (p, 0)).collect(),
        shares: BTreeMap::new(),
        ops: vec![],
        ev: BTreeMap::new(),
        evals: BTreeMap::new(),
        opsk: BTreeMap::new(),
        shape: vec![],
        seq: 0,
        by: None,
        by_id: 0,
        delivered2: (1..=parts).map(|p| (p, 0)).collect(),
        twin: hseed % 2 == 0,
    };
    let res: R<()> = async {
        timed("login", w.ctl.login_user("iggy", "iggy")).await?.map_err(|e| Stop::Inconclusive(e.to_string()))?;
        timed("create_stream", w.ctl.create_stream("gstream", Some(2))).await?.map_err(|e| Stop::Inconclusive(e.to_string()))?;
        timed("create_topic", w.ctl.create_topic(&sid(), "gtopic", parts, CompressionAlgorithm::None, None, Some(4), IggyExpiry::NeverExpire, MaxTopicSize::Unlimited))
            .await?
            .map_err(|e| Stop::Inconclusive(e.to_string()))?;
        timed("create_group", w.ctl.create_consumer_group(&sid(), &tid(), "ggroup", Some(6))).await?.map_err(|e| Stop::Inconclusive(e.to_string()))?;
        if w.twin {
            timed("create_stream", w.ctl.create_stream("gtwin", Some(3))).await?.map_err(|e| Stop::Inconclusive(e.to_string()))?;
            timed("create_topic", w.ctl.create_topic(&twin_sid(), "gtopic", TWIN_PARTS, CompressionAlgorithm::None, None, Some(4), IggyExpiry::NeverExpire, MaxTopicSize::Unlimited))
                .await?
                .map_err(|e| Stop::Inconclusive(e.to_string()))?;
            timed("create_group", w.ctl.create_consumer_group(&twin_sid(), &tid(), "ggroup", Some(6))).await?.map_err(|e| Stop::Inconclusive(e.to_string()))?;
        }
        for c in 0..nmem {
            w.connect_member(c).await?;
        }
        timed("create_group", w.ctl.create_consumer_group(&sid(), &tid(), "bystanders", Some(7))).await?.map_err(|e| Stop::Inconclusive(e.to_string()))?;
        let by = RawClient::connect(w.inst.tcp_addr).await.map_err(Stop::Inconclusive)?;
        timed("login", by.login_user("iggy", "iggy")).await?.map_err(|e| Stop::Inconclusive(e.to_string()))?;
        w.by_id = timed("get_me", by.get_me()).await?.map_err(|e| Stop::Inconclusive(e.to_string()))?.client_id;
        timed("join", by.join_consumer_group(&sid(), &tid(), &two())).await?.map_err(|e| Stop::Inconclusive(e.to_string()))?;
        w.by = Some(by);
        match replay_ops {
            Some((_, _, ops)) => {
                for op in ops {
                    w.exec(op).await?;
                }
            }
            None => {
                let nops = rng.range(30, 160);
                for _ in 0..nops {
                    let op = gen(&w, &mut rng);
                    w.exec(op).await?;
                }
                w.drain().await?;
            }
        }
        Ok(())
    }
    .await;
    (Some(w), res, parts, nmem)
}

pub async fn run(ctx: &Ctx, rep: &mut ShardReport) {
    let cache = CacheMode::for_shard(ctx.shard);
    rep.process_cfg = cache.name().into();
    let replay = ctx.replay.as_ref().and_then(|p| std::fs::read_to_string(p).ok()).and_then(|t| serde_json::from_str::<Value>(&t).ok());
    let mut k = 0u64;
    while ctx.time_left() {
        let (hseed, rops) = match &replay {
            Some(v) => {
                let w = &v["witness"];
                let ops: Vec<GOp> = serde_json::from_value(w["ops"].clone()).unwrap_or_default();
                (w["history"].as_u64().unwrap_or(1), Some((w["partitions"].as_u64().unwrap_or(1) as u32, w["members"].as_u64().unwrap_or(1) as usize, ops)))
            }
            None => (ctx.hist_seed(k), None),
        };
        k += 1;
        let (w, res, parts, nmem) = history(hseed, cache, rops).await;
        rep.histories += 1;
        if let Some(w) = w {
            for (a, b) in &w.opsk {
                rep.op_n(a, *b);
            }
            for (a, b) in &w.evals {
                rep.eval_n(a, *b);
            }
            for (a, b) in &w.ev {
                rep.event_n(a, *b);
            }
            let nontrivial = w.ev.contains_key("messages_delivered_to_group") && (w.ev.contains_key("leave") || w.ev.contains_key("member_disconnected") || w.ev.contains_key("partitions_deleted"));
            if nontrivial {
                rep.histories_nontrivial += 1;
                rep.shapes.insert(shape_hash(&format!("{}|p{}|m{}", cache.name(), parts, nmem), &w.shape));
                if rep.samples.len() < 2 && res.is_ok() {
                    rep.sample(json!({"history": format!("{:016x}", hseed), "partitions": parts, "members": nmem, "ops": w.ops.iter().map(|o| format!("{o:?}")).collect::<Vec<_>>(), "events": w.ev}));
                }
            }
            let GWorld { inst, ctl, members, .. } = w;
            drop(ctl);
            drop(members);
            let _ = inst.stop(false).await;
        }
        let _ = std::fs::remove_dir_all(scratch_root().join(format!("g{:016x}", hseed)));
        match res {
            Ok(()) => {}
            Err(Stop::Violation(mut v)) => {
                if let Some(obj) = v.witness.as_object_mut() {
                    obj.insert("partitions".into(), json!(parts));
                    obj.insert("members".into(), json!(nmem));
                }
                rep.violation(v)
            }
            Err(Stop::Inconclusive(r)) => rep.inconclusive(&r.chars().take(60).collect::<String>()),
            Err(Stop::Stall(x)) => rep.inconclusive(&format!("stall:{x}")),
        }
        if replay.is_some() {
            break;
        }
    }
    rep.extra.insert("required_events".into(), json!(["join", "leave", "member_disconnected", "partitions_created", "partitions_deleted", "more_members_than_partitions",
        "messages_delivered_to_group", "rotation_window_checked", "poll_by_member_without_share", "drained"]));
}
