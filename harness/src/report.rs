//! Shard report: what one shard process observed. The python driver merges shard reports into
//! the evidence file and decides VIOLATION / KNOWN-FINDING / INCONCLUSIVE.

use crate::inst::PanicRecord;
use serde::Serialize;
use serde_json::{json, Value};
use std::collections::{BTreeMap, BTreeSet};

#[derive(Clone, Debug, Serialize)]
pub struct Violation {
    pub property: String,
    /// oracle clause that fired, e.g. "slice"
    pub clause: String,
    /// clause + specific trigger, e.g. "C02:slice/wait/disk+buffer"
    pub signature: String,
    pub witness: Value,
}

#[derive(Default, Serialize)]
pub struct ShardReport {
    pub check: String,
    pub shard: u32,
    pub seed: u64,
    pub tier: String,
    pub process_cfg: String,
    pub histories: u64,
    pub histories_nontrivial: u64,
    pub inconclusive_histories: u64,
    pub inconclusive_reasons: BTreeMap<String, u64>,
    pub ops_by_kind: BTreeMap<String, u64>,
    pub clause_evals: BTreeMap<String, u64>,
    pub events: BTreeMap<String, u64>,
    pub config_classes: BTreeSet<String>,
    /// hashes of (config class, abstract history shape) of non-trivial histories
    pub shapes: BTreeSet<String>,
    pub samples: Vec<Value>,
    pub violations: Vec<Violation>,
    /// violations of clauses owned by *other* properties, observed while running this check
    pub foreign: BTreeMap<String, u64>,
    pub foreign_samples: Vec<Value>,
    pub notes: Vec<String>,
    pub server_panics: Vec<PanicRecord>,
    pub wall_s: f64,
    pub exhaustive: bool,
    pub extra: BTreeMap<String, Value>,
}

impl ShardReport {
    pub fn op(&mut self, kind: &str) {
        *self.ops_by_kind.entry(kind.to_string()).or_insert(0) += 1;
    }
    pub fn op_n(&mut self, kind: &str, n: u64) {
        *self.ops_by_kind.entry(kind.to_string()).or_insert(0) += n;
    }
    pub fn eval(&mut self, clause: &str) {
        *self.clause_evals.entry(clause.to_string()).or_insert(0) += 1;
    }
    pub fn eval_n(&mut self, clause: &str, n: u64) {
        *self.clause_evals.entry(clause.to_string()).or_insert(0) += n;
    }
    pub fn event(&mut self, name: &str) {
        *self.events.entry(name.to_string()).or_insert(0) += 1;
    }
    pub fn event_n(&mut self, name: &str, n: u64) {
        *self.events.entry(name.to_string()).or_insert(0) += n;
    }
    pub fn inconclusive(&mut self, reason: &str) {
        self.inconclusive_histories += 1;
        *self.inconclusive_reasons.entry(reason.to_string()).or_insert(0) += 1;
    }
    pub fn sample(&mut self, v: Value) {
        if self.samples.len() < 3 {
            self.samples.push(v);
        }
    }
    pub fn violation(&mut self, v: Violation) {
        // keep at most a handful per signature, the driver needs one witness each
        let same = self.violations.iter().filter(|x| x.signature == v.signature).count();
        if same < 2 && self.violations.len() < 40 {
            self.violations.push(v);
        } else {
            *self.extra.entry("violations_dropped".into()).or_insert(json!(0)) =
                json!(self.extra.get("violations_dropped").and_then(|x| x.as_u64()).unwrap_or(0) + 1);
        }
    }
    pub fn foreign(&mut self, v: &Violation) {
        *self.foreign.entry(v.signature.clone()).or_insert(0) += 1;
        if self.foreign_samples.len() < 4 {
            self.foreign_samples.push(json!({"signature": v.signature, "witness": v.witness}));
        }
    }
    pub fn write(&self, path: &str) -> std::io::Result<()> {
        let s = serde_json::to_string(self).unwrap();
        let tmp = format!("{path}.tmp");
        std::fs::write(&tmp, s)?;
        std::fs::rename(&tmp, path)
    }
}
