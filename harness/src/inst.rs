//! One server *incarnation*: the real `System`, TCP and HTTP front ends, started in-process
//! on their own tokio runtime exactly like `server/src/main.rs` does.

use crate::rng::Rng;
use iggy::confirmation::Confirmation;
use iggy::utils::byte_size::IggyByteSize;
use iggy::utils::duration::IggyDuration;
use iggy::utils::expiry::IggyExpiry;
use iggy::utils::topic_size::MaxTopicSize;
use serde::{Deserialize, Serialize};
use server::channels::commands::clean_personal_access_tokens::{
    CleanPersonalAccessTokensCommand, CleanPersonalAccessTokensExecutor,
};
use server::channels::commands::maintain_messages::{
    MaintainMessagesCommand, MaintainMessagesExecutor, MessagesMaintainer,
};
use server::channels::commands::save_messages::{SaveMessagesCommand, SaveMessagesExecutor};
use server::channels::server_command::ServerCommand;
use server::configs::resource_quota::MemoryResourceQuota;
use server::configs::server::{MessagesMaintenanceConfig, ServerConfig};
use server::configs::system::*;
use server::streaming::systems::system::{SharedSystem, System};
use std::net::SocketAddr;
use std::path::{Path, PathBuf};
use std::str::FromStr;
use std::sync::atomic::{AtomicU64, Ordering};
use std::sync::{Arc, Mutex};
use std::time::Duration;
use tokio::runtime::Runtime;

pub const SERVER_THREAD_PREFIX: &str = "iggy-srv";
pub const ENC_KEY_A: &str = "/rvT1xP4V8u1EAhk4xDdqzqM2UOPXyy9XYkl4uRShgE=";
pub const ENC_KEY_B: &str = "0Mw3Lq7fT9ZxA1bC2dE4gH6jK8mN0pQ2rS4tU6vW8yY=";

/// Per-process cache class (the cache memory tracker is a process-wide singleton: the first
/// configuration wins, so shards - not histories - vary it).
#[derive(Clone, Copy, Debug, PartialEq, Eq, Serialize, Deserialize)]
pub enum CacheMode {
    Off,
    Big,
    Tiny,
}

impl CacheMode {
    pub fn for_shard(shard: u32) -> CacheMode {
        match shard % 3 {
            0 => CacheMode::Off,
            1 => CacheMode::Big,
            _ => CacheMode::Tiny,
        }
    }
    pub fn name(&self) -> &'static str {
        match self {
            CacheMode::Off => "cache_off",
            CacheMode::Big => "cache_big",
            CacheMode::Tiny => "cache_tiny",
        }
    }
}

#[derive(Clone, Debug, Serialize, Deserialize)]
pub struct StorageCfg {
    pub messages_required_to_save: u32,
    pub segment_size: u64,
    pub cache_indexes: bool,
    pub partition_fsync: bool,
    pub state_fsync: bool,
    pub no_wait: bool,
    pub dedup: bool,
    pub encryption: bool,
    pub enc_key: String,
    pub delete_oldest: bool,
    /// 0 = unlimited
    pub default_max_topic_size: u64,
    /// 0 = never expire, else micros
    pub default_expiry_us: u64,
    pub validate_checksum: bool,
    pub workers: usize,
    pub http: bool,
    pub recreate_missing_state: bool,
    /// start the QUIC listener too (same decoders and handlers, its own framing, sender and session clean-up)
    #[serde(default)]
    pub quic: bool,
}

impl Default for StorageCfg {
    fn default() -> Self {
        StorageCfg {
            messages_required_to_save: 1000,
            segment_size: 1_000_000_000,
            cache_indexes: true,
            partition_fsync: false,
            state_fsync: false,
            no_wait: false,
            dedup: false,
            encryption: false,
            enc_key: ENC_KEY_A.to_string(),
            delete_oldest: false,
            default_max_topic_size: 0,
            default_expiry_us: 0,
            validate_checksum: false,
            workers: 2,
            http: false,
            recreate_missing_state: false,
            quic: false,
        }
    }
}

impl StorageCfg {
    /// Draws the storage axes named in the properties' quantifiers.
    pub fn random(rng: &mut Rng) -> StorageCfg {
        let mut c = StorageCfg::default();
        c.messages_required_to_save = *rng.pick(&[1, 2, 3, 5, 10, 1000]);
        c.segment_size = *rng.pick(&[400, 700, 1000, 2000, 4000, 1_000_000_000, 1_000_000_000]);
        c.cache_indexes = rng.chance(1, 2);
        c.partition_fsync = rng.chance(1, 4);
        c.state_fsync = rng.chance(1, 4);
        c
    }

    pub fn class(&self, cache: CacheMode) -> String {
        format!(
            "{}|save{}|seg{}|idx{}|fs{}|{}|dd{}|enc{}",
            cache.name(),
            self.messages_required_to_save,
            if self.segment_size > 1_000_000 { "big".to_string() } else { self.segment_size.to_string() },
            self.cache_indexes as u8,
            self.partition_fsync as u8,
            if self.no_wait { "nowait" } else { "wait" },
            self.dedup as u8,
            self.encryption as u8
        )
    }
}

pub fn build_config(dir: &Path, cfg: &StorageCfg, cache: CacheMode) -> ServerConfig {
    let mut sc = ServerConfig::default();
    let system = SystemConfig {
        path: dir.to_str().unwrap().to_string(),
        cache: CacheConfig {
            enabled: cache != CacheMode::Off,
            size: match cache {
                CacheMode::Tiny => MemoryResourceQuota::Bytes(IggyByteSize::from(6_000u64)),
                _ => MemoryResourceQuota::Bytes(IggyByteSize::from(2_000_000_000u64)),
            },
        },
        partition: PartitionConfig {
            messages_required_to_save: cfg.messages_required_to_save,
            enforce_fsync: cfg.partition_fsync,
            validate_checksum: cfg.validate_checksum,
            ..Default::default()
        },
        segment: SegmentConfig {
            size: IggyByteSize::from(cfg.segment_size),
            cache_indexes: cfg.cache_indexes,
            message_expiry: if cfg.default_expiry_us == 0 {
                IggyExpiry::NeverExpire
            } else {
                IggyExpiry::ExpireDuration(IggyDuration::from(cfg.default_expiry_us))
            },
            archive_expired: false,
            server_confirmation: if cfg.no_wait { Confirmation::NoWait } else { Confirmation::Wait },
        },
        state: StateConfig {
            enforce_fsync: cfg.state_fsync,
            ..Default::default()
        },
        topic: TopicConfig {
            max_size: if cfg.default_max_topic_size == 0 {
                MaxTopicSize::Unlimited
            } else {
                MaxTopicSize::Custom(IggyByteSize::from(cfg.default_max_topic_size))
            },
            delete_oldest_segments: cfg.delete_oldest,
            ..Default::default()
        },
        encryption: EncryptionConfig {
            enabled: cfg.encryption,
            key: cfg.enc_key.clone(),
        },
        message_deduplication: MessageDeduplicationConfig {
            enabled: cfg.dedup,
            max_entries: 1_000_000,
            expiry: IggyDuration::from_str("1 h").unwrap(),
        },
        recovery: RecoveryConfig {
            recreate_missing_state: cfg.recreate_missing_state,
        },
        ..Default::default()
    };
    sc.system = Arc::new(system);
    sc.tcp.address = "127.0.0.1:0".to_string();
    sc.tcp.socket.override_defaults = true;
    sc.tcp.socket.nodelay = true;
    sc.http.address = "127.0.0.1:0".to_string();
    sc.http.enabled = cfg.http;
    sc.quic.enabled = cfg.quic;
    sc.quic.address = "127.0.0.1:0".to_string();
    sc.quic.certificate.self_signed = true;
    sc.message_saver.enabled = false;
    sc.heartbeat.enabled = false;
    sc.personal_access_token.cleaner.enabled = false;
    sc.data_maintenance.messages.cleaner_enabled = false;
    sc.data_maintenance.messages.archiver_enabled = false;
    sc.data_maintenance.state.archiver_enabled = false;
    sc.data_maintenance.archiver.enabled = false;
    sc.telemetry.enabled = false;
    sc
}

static INCARNATIONS: AtomicU64 = AtomicU64::new(0);

pub struct ServerInstance {
    rt: Option<Runtime>,
    pub system: SharedSystem,
    pub tcp_addr: SocketAddr,
    pub http_addr: Option<SocketAddr>,
    pub quic_addr: Option<SocketAddr>,
    pub maintain_cmd: MaintainMessagesCommand,
    pub dir: PathBuf,
    pub config: ServerConfig,
    pub incarnation: u64,
}

#[derive(Debug)]
pub enum StartError {
    /// `System::init` returned an error.
    Init(String),
    /// start-up panicked (message, location)
    Panic(String),
    /// harness problem (treated as inconclusive)
    Harness(String),
}

impl ServerInstance {
    /// Starts a server incarnation on `dir`. Blocking-safe: may be called from an async context,
    /// all work happens on the new runtime.
    pub async fn start(dir: &Path, cfg: &StorageCfg, cache: CacheMode) -> Result<ServerInstance, StartError> {
        std::fs::create_dir_all(dir).map_err(|e| StartError::Harness(format!("mkdir: {e}")))?;
        let config = build_config(dir, cfg, cache);
        let incarnation = INCARNATIONS.fetch_add(1, Ordering::SeqCst);
        let workers = cfg.workers.max(1);
        let cfg2 = config.clone();
        // `System::init` is not `Send` (main.rs runs it with block_on on the main thread): do the same
        // on a dedicated thread; the workers of `rt` run everything that gets spawned.
        let (tx, rx) = tokio::sync::oneshot::channel();
        type Started = (SharedSystem, SocketAddr, Option<SocketAddr>, Option<SocketAddr>, MaintainMessagesCommand);
        std::thread::Builder::new()
            .name(format!("{SERVER_THREAD_PREFIX}-init"))
            .spawn(move || {
                let rt = match tokio::runtime::Builder::new_multi_thread()
                    .worker_threads(workers)
                    .max_blocking_threads(64)
                    .thread_name(SERVER_THREAD_PREFIX)
                    .enable_all()
                    .build()
                {
                    Ok(rt) => rt,
                    Err(e) => {
                        let _ = tx.send(Err(StartError::Harness(format!("runtime: {e}"))));
                        return;
                    }
                };
                let res = std::panic::catch_unwind(std::panic::AssertUnwindSafe(|| {
                    rt.block_on(async move {
                        let config = cfg2;
                        let system = SharedSystem::new(System::new(
                            config.system.clone(),
                            config.data_maintenance.clone(),
                            config.personal_access_token.clone(),
                        ));
                        system.write().await.get_stats().await.map_err(|e| format!("get_stats: {e}"))?;
                        system.write().await.init().await.map_err(|e| format!("{e}"))?;
                        // The real maintenance command, built by the real MessagesMaintainer.
                        let (mtx, mrx) = flume::unbounded();
                        let mm = MessagesMaintainer::new(
                            &MessagesMaintenanceConfig {
                                archiver_enabled: false,
                                cleaner_enabled: true,
                                interval: IggyDuration::from_str("365 days").unwrap(),
                            },
                            mtx,
                        );
                        mm.start();
                        let maintain_cmd = mrx.recv_async().await.map_err(|e| format!("maintain cmd: {e}"))?;
                        let http_addr = if config.http.enabled {
                            Some(server::http::http_server::start(config.http.clone(), system.clone()).await)
                        } else {
                            None
                        };
                        let tcp_addr = server::tcp::tcp_server::start(config.tcp.clone(), system.clone()).await;
                        let quic_addr = if config.quic.enabled { Some(server::quic::quic_server::start(config.quic.clone(), system.clone())) } else { None };
                        Ok::<Started, String>((system, tcp_addr, http_addr, quic_addr, maintain_cmd))
                    })
                }));
                let msg = match res {
                    Ok(Ok(started)) => Ok((rt, started)),
                    Ok(Err(e)) => {
                        drop(rt);
                        Err(StartError::Init(e))
                    }
                    Err(p) => {
                        let m = if let Some(s) = p.downcast_ref::<String>() {
                            s.clone()
                        } else if let Some(s) = p.downcast_ref::<&str>() {
                            s.to_string()
                        } else {
                            "panic".to_string()
                        };
                        drop(rt);
                        Err(StartError::Panic(m))
                    }
                };
                let _ = tx.send(msg);
            })
            .map_err(|e| StartError::Harness(format!("thread: {e}")))?;
        match rx.await {
            Ok(Ok((rt, (system, tcp_addr, http_addr, quic_addr, maintain_cmd)))) => Ok(ServerInstance {
                rt: Some(rt),
                system,
                tcp_addr,
                http_addr,
                quic_addr,
                maintain_cmd,
                dir: dir.to_path_buf(),
                config,
                incarnation,
            }),
            Ok(Err(e)) => {
                server::verif::reset_process_globals();
                Err(e)
            }
            Err(_) => Err(StartError::Harness("init thread vanished".into())),
        }
    }

    /// Runs a future on the server's runtime and awaits it from the caller's runtime.
    pub async fn on_server<F, T>(&self, fut: F) -> Result<T, String>
    where
        F: std::future::Future<Output = T> + Send + 'static,
        T: Send + 'static,
    {
        let rt = self.rt.as_ref().unwrap();
        rt.spawn(fut).await.map_err(|e| format!("server task failed: {e}"))
    }

    /// The background save (what `SaveMessagesExecutor` does on its timer).
    pub async fn save_tick(&self, enforce_fsync: bool) -> Result<(), String> {
        let system = self.system.clone();
        self.on_server(async move {
            let mut ex = SaveMessagesExecutor;
            ex.execute(&system, SaveMessagesCommand { enforce_fsync }).await;
        })
        .await
    }

    /// One maintenance pass (what `MaintainMessagesExecutor` does on its timer).
    pub async fn maintain(&self) -> Result<(), String> {
        let system = self.system.clone();
        let cmd = self.maintain_cmd.clone();
        self.on_server(async move {
            let mut ex = MaintainMessagesExecutor;
            ex.execute(&system, cmd).await;
        })
        .await
    }

    pub async fn clean_tokens(&self) -> Result<(), String> {
        let system = self.system.clone();
        self.on_server(async move {
            let mut ex = CleanPersonalAccessTokensExecutor;
            ex.execute(&system, CleanPersonalAccessTokensCommand).await;
        })
        .await
    }

    /// Stops the incarnation. `clean` = `System::shutdown()` first, as main.rs does on SIGTERM.
    pub async fn stop(mut self, clean: bool) -> Result<(), String> {
        let mut res = Ok(());
        if clean {
            let system = self.system.clone();
            res = self
                .on_server(async move {
                    let mut s = system.write().await;
                    s.shutdown().await.map_err(|e| format!("shutdown: {e}"))
                })
                .await
                .and_then(|r| r);
        }
        let rt = self.rt.take().unwrap();
        // Drop our handle on the System before the runtime goes away.
        drop(self);
        // Panics raised while the runtime is being torn down (tasks polled during shutdown of the
        // blocking pool) are artefacts of stopping, not of any request: discard them.
        let mark = PANICS.lock().unwrap().len();
        drop_runtime(rt).await;
        PANICS.lock().unwrap().truncate(mark);
        server::verif::reset_process_globals();
        res
    }
}

impl Drop for ServerInstance {
    fn drop(&mut self) {
        if let Some(rt) = self.rt.take() {
            std::thread::spawn(move || drop(rt));
        }
    }
}

async fn drop_runtime(rt: Runtime) {
    let _ = tokio::task::spawn_blocking(move || {
        // Dropping waits for the blocking pool, so every file write tokio had already queued
        // (they are "mandatory" blocking tasks) reaches the kernel, as it would when main() returns.
        drop(rt);
    })
    .await;
}

// ---------------------------------------------------------------------------------------------
// Panic monitor

#[derive(Clone, Debug, Serialize)]
pub struct PanicRecord {
    pub thread: String,
    pub location: String,
    pub message: String,
}

static PANICS: Mutex<Vec<PanicRecord>> = Mutex::new(Vec::new());

pub fn install_panic_monitor() {
    std::panic::set_hook(Box::new(|info| {
        let thread = std::thread::current().name().unwrap_or("?").to_string();
        let location = info
            .location()
            .map(|l| format!("{}:{}", l.file(), l.line()))
            .unwrap_or_default();
        let message = if let Some(s) = info.payload().downcast_ref::<String>() {
            s.clone()
        } else if let Some(s) = info.payload().downcast_ref::<&str>() {
            s.to_string()
        } else {
            "?".to_string()
        };
        let mut message = message;
        if message.len() > 400 {
            message.truncate(400);
        }
        if let Ok(mut g) = PANICS.lock() {
            g.push(PanicRecord { thread, location, message });
        }
    }));
}

/// Panics recorded on server threads since the last call.
pub fn take_server_panics() -> Vec<PanicRecord> {
    let mut g = PANICS.lock().unwrap();
    let all = std::mem::take(&mut *g);
    all.into_iter()
        .filter(|p| p.thread.starts_with(SERVER_THREAD_PREFIX) || p.location.contains("/repo/"))
        .collect()
}

pub fn scratch_root() -> PathBuf {
    let base = if Path::new("/dev/shm").is_dir() { "/dev/shm" } else { "/var/tmp" };
    PathBuf::from(format!("{}/iggy-verif-{}", base, std::process::id()))
}

pub fn copy_dir(src: &Path, dst: &Path) -> std::io::Result<()> {
    std::fs::create_dir_all(dst)?;
    for e in std::fs::read_dir(src)? {
        let e = e?;
        let p = e.path();
        let d = dst.join(e.file_name());
        let ft = e.file_type()?;
        if ft.is_dir() {
            copy_dir(&p, &d)?;
        } else if ft.is_file() {
            // the file may vanish between readdir and copy (segment deletion); ignore that
            match std::fs::copy(&p, &d) {
                Ok(_) => {}
                Err(err) if err.kind() == std::io::ErrorKind::NotFound => {}
                Err(err) => return Err(err),
            }
        }
    }
    Ok(())
}

pub fn sleep_ms(ms: u64) -> tokio::time::Sleep {
    tokio::time::sleep(Duration::from_millis(ms))
}
