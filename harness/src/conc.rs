//! C12: concurrent producers and consumers on one partition observe one totally ordered log.
//! Client-boundary history (call/return instants from one clock) + the final log, checked offline.

use crate::checks::Ctx;
use crate::inst::{scratch_root, take_server_panics, CacheMode, ServerInstance, StorageCfg};
use crate::raw::RawClient;
use crate::report::{ShardReport, Violation};
use crate::rng::{fnv64, Rng};
use crate::world::{compress, timed, Stop, NOWAIT_RETRIES, R};
use bytes::Bytes;
use iggy::client::*;
use iggy::compression::compression_algorithm::CompressionAlgorithm;
use iggy::consumer::Consumer;
use iggy::identifier::Identifier;
use iggy::messages::poll_messages::PollingStrategy;
use iggy::messages::send_messages::{Message, Partitioning};
use iggy::utils::expiry::IggyExpiry;
use iggy::utils::topic_size::MaxTopicSize;
use serde_json::{json, Value};
use std::collections::{BTreeMap, HashMap};
use std::sync::atomic::{AtomicBool, AtomicU64, Ordering};
use std::sync::Arc;
use std::time::{Duration, Instant};

static SCHED_STATE: AtomicU64 = AtomicU64::new(0x1234_5678);
static SCHED_HITS: AtomicU64 = AtomicU64::new(0);
static SCHED_DELAYS: AtomicU64 = AtomicU64::new(0);

fn sched_next() -> u64 {
    let mut z = SCHED_STATE.fetch_add(0x9E37_79B9_7F4A_7C15, Ordering::Relaxed).wrapping_add(0x9E37_79B9_7F4A_7C15);
    z = (z ^ (z >> 30)).wrapping_mul(0xBF58_476D_1CE4_E5B9);
    z = (z ^ (z >> 27)).wrapping_mul(0x94D0_49BB_1331_11EB);
    z ^ (z >> 31)
}

/// Arms hook H4: at every schedule point a seeded policy yields a few times or sleeps a few hundred microseconds.
pub fn arm_sched(seed: u64) {
    SCHED_STATE.store(seed | 1, Ordering::Relaxed);
    server::verif::set_sched_policy(Some(Box::new(|_name: &'static str| {
        SCHED_HITS.fetch_add(1, Ordering::Relaxed);
        let x = sched_next();
        match x % 10 {
            0..=4 => None,
            5..=7 => {
                SCHED_DELAYS.fetch_add(1, Ordering::Relaxed);
                let k = 1 + (x >> 8) % 5;
                Some(Box::pin(async move {
                    for _ in 0..k {
                        tokio::task::yield_now().await;
                    }
                }))
            }
            _ => {
                SCHED_DELAYS.fetch_add(1, Ordering::Relaxed);
                let us = 50 + (x >> 8) % 450;
                Some(Box::pin(async move {
                    tokio::time::sleep(Duration::from_micros(us)).await;
                }))
            }
        }
    })));
}

#[derive(Clone, Debug)]
struct SendEv {
    producer: u32,
    batch: u32,
    n: u32,
    call: u128,
    ret: u128,
    ok: bool,
}

#[derive(Clone, Debug)]
struct PollEv {
    consumer: u32,
    kind: &'static str,
    offset: u64,
    count: u32,
    call: u128,
    ret: u128,
    /// (offset, tag)
    got: Vec<(u64, String)>,
    err: Option<String>,
}

fn tag_of(payload: &[u8]) -> String {
    let n = payload.iter().position(|c| *c == b'|').unwrap_or(payload.len());
    String::from_utf8_lossy(&payload[..n]).to_string()
}

/// "h/p/b/i/n" -> (producer, batch, idx, n)
fn parse_tag(t: &str) -> Option<(u32, u32, u32, u32)> {
    let v: Vec<&str> = t.split('/').collect();
    if v.len() != 5 {
        return None;
    }
    Some((v[1].parse().ok()?, v[2].parse().ok()?, v[3].parse().ok()?, v[4].parse().ok()?))
}

/// stream 4, topic 9 (different ids, so that a swapped pair cannot go unnoticed)
fn sid() -> Identifier {
    Identifier::numeric(4).unwrap()
}
fn tid() -> Identifier {
    Identifier::numeric(9).unwrap()
}

#[allow(dead_code)]
fn one() -> Identifier {
    Identifier::numeric(1).unwrap()
}

struct Outcome {
    sends: Vec<SendEv>,
    polls: Vec<PollEv>,
    final_log: Vec<String>,
    cfg: StorageCfg,
    producers: u32,
    consumers: u32,
    segments: u32,
}

fn cv(hist: u64, o: &Outcome, clause: &str, trig: &str, detail: Value) -> Violation {
    let mode = if o.cfg.no_wait { "nowait" } else { "wait" };
    Violation {
        property: "C12".into(),
        clause: clause.into(),
        signature: format!("C12:{clause}/{trig}/{mode}"),
        witness: json!({"history": hist, "storage_cfg": o.cfg, "producers": o.producers, "consumers": o.consumers, "sends": o.sends.len(), "polls": o.polls.len(),
            "final_log_len": o.final_log.len(), "first_bad": {"detail": detail}, "server_panics": take_server_panics(),
            "note": "schedule-dependent: replay re-runs the same seed and configuration and reports whether a violation of the same clause reproduced"}),
    }
}

async fn run_history(hseed: u64, cache: CacheMode) -> R<Outcome> {
    let mut rng = Rng::new(hseed);
    let mut cfg = StorageCfg::random(&mut rng);
    cfg.segment_size = *rng.pick(&[400, 700, 1000, 2000, 1_000_000_000]);
    cfg.messages_required_to_save = *rng.pick(&[1, 2, 3, 5, 10, 1000]);
    cfg.no_wait = rng.chance(1, 4);
    cfg.workers = 4;
    let dir = scratch_root().join(format!("c{:016x}", hseed));
    let inst = ServerInstance::start(&dir, &cfg, cache).await.map_err(|e| Stop::Inconclusive(format!("{e:?}")))?;
    let ctl = RawClient::connect(inst.tcp_addr).await.map_err(Stop::Inconclusive)?;
    let res = run_inner(hseed, &mut rng, &cfg, &inst, &ctl).await;
    drop(ctl);
    let _ = inst.stop(false).await;
    let _ = std::fs::remove_dir_all(&dir);
    res
}

async fn run_inner(hseed: u64, rng: &mut Rng, cfg: &StorageCfg, inst: &ServerInstance, ctl: &RawClient) -> R<Outcome> {
    timed("login", ctl.login_user("iggy", "iggy")).await?.map_err(|e| Stop::Inconclusive(e.to_string()))?;
    timed("create_stream", ctl.create_stream("cstream", Some(4))).await?.map_err(|e| Stop::Inconclusive(e.to_string()))?;
    timed("create_topic", ctl.create_topic(&sid(), "ctopic", 1, CompressionAlgorithm::None, None, Some(9), IggyExpiry::NeverExpire, MaxTopicSize::Unlimited))
        .await?
        .map_err(|e| Stop::Inconclusive(e.to_string()))?;
    let producers = rng.range(2, 6) as u32;
    let consumers = rng.range(1, 4) as u32;
    let batches = rng.range(8, 30) as u32;
    let t0 = Instant::now();
    let done = Arc::new(AtomicBool::new(false));
    let addr = inst.tcp_addr;
    let mut ptasks = vec![];
    for p in 0..producers {
        let mut r = rng.derive(p as u64 + 1);
        ptasks.push(tokio::spawn(async move {
            let mut evs = vec![];
            let Ok(c) = RawClient::connect(addr).await else { return evs };
            if c.login_user("iggy", "iggy").await.is_err() {
                return evs;
            }
            for b in 0..batches {
                let n = r.range(1, 8) as u32;
                let mut msgs = vec![];
                for i in 0..n {
                    let pl = format!("{:x}/{}/{}/{}/{}|{}", hseed & 0xffff_ffff, p, b, i, n, "x".repeat(r.range(0, 60) as usize));
                    msgs.push(Message::new(Some(((hseed as u128) << 64) | ((p as u128) << 40) | ((b as u128) << 16) | (i as u128 + 1)), Bytes::from(pl), None));
                }
                let call = t0.elapsed().as_nanos();
                let res = tokio::time::timeout(Duration::from_secs(30), c.send_messages(&sid(), &tid(), &Partitioning::partition_id(1), &mut msgs)).await;
                let ret = t0.elapsed().as_nanos();
                let ok = matches!(res, Ok(Ok(())));
                evs.push(SendEv { producer: p, batch: b, n, call, ret, ok });
                if !ok {
                    break;
                }
                if r.chance(1, 3) {
                    tokio::task::yield_now().await;
                }
            }
            evs
        }));
    }
    let mut ctasks = vec![];
    for cidx in 0..consumers {
        let mut r = rng.derive(1000 + cidx as u64);
        let done = done.clone();
        ctasks.push(tokio::spawn(async move {
            let mut evs: Vec<PollEv> = vec![];
            let Ok(c) = RawClient::connect(addr).await else { return evs };
            if c.login_user("iggy", "iggy").await.is_err() {
                return evs;
            }
            let who = Consumer::new(Identifier::numeric(500 + cidx).unwrap());
            let mut seen_max: u64 = 0;
            let mut after_done = 0;
            loop {
                if done.load(Ordering::SeqCst) {
                    after_done += 1;
                    if after_done > 3 {
                        break;
                    }
                }
                let count = *r.pick(&[1u32, 2, 3, 5, 8, 20, 100]);
                let (kind, offset, strat) = match r.below(10) {
                    0..=1 => ("last", 0, PollingStrategy::last()),
                    2 => ("first", 0, PollingStrategy::first()),
                    3..=6 => {
                        // near the tail
                        let o = seen_max.saturating_sub(r.range(0, 6));
                        ("offset", o, PollingStrategy::offset(o))
                    }
                    _ => {
                        let o = r.range(0, seen_max + 2);
                        ("offset", o, PollingStrategy::offset(o))
                    }
                };
                let call = t0.elapsed().as_nanos();
                let res = tokio::time::timeout(Duration::from_secs(30), c.poll_messages(&sid(), &tid(), Some(1), &who, &strat, count, false)).await;
                let ret = t0.elapsed().as_nanos();
                match res {
                    Ok(Ok(pm)) => {
                        let got: Vec<(u64, String)> = pm.messages.iter().map(|m| (m.offset, tag_of(&m.payload))).collect();
                        if let Some(l) = got.last() {
                            seen_max = seen_max.max(l.0 + 1);
                        }
                        evs.push(PollEv { consumer: cidx, kind, offset, count, call, ret, got, err: None });
                    }
                    Ok(Err(e)) => {
                        evs.push(PollEv { consumer: cidx, kind, offset, count, call, ret, got: vec![], err: Some(e.to_string()) });
                        break;
                    }
                    Err(_) => {
                        evs.push(PollEv { consumer: cidx, kind, offset, count, call, ret, got: vec![], err: Some("timeout".into()) });
                        break;
                    }
                }
                if evs.len() > 4000 {
                    break;
                }
            }
            evs
        }));
    }
    // janitor: flushes and background saves while the traffic runs
    let jdone = done.clone();
    let mut jr = rng.derive(77);
    let jsys = inst.system.clone();
    let _ = jsys;
    let janitor = async {
        let mut n = 0u32;
        while !jdone.load(Ordering::SeqCst) && n < 400 {
            n += 1;
            match jr.below(3) {
                0 => {
                    let _ = ctl.flush_unsaved_buffer(&sid(), &tid(), 1, jr.chance(1, 2)).await;
                }
                1 => {
                    let _ = inst.save_tick(false).await;
                }
                _ => {}
            }
            tokio::time::sleep(Duration::from_micros(jr.range(200, 3000))).await;
        }
        n
    };
    let prod_all = async {
        let mut sends = vec![];
        for t in ptasks {
            if let Ok(v) = t.await {
                sends.extend(v);
            }
        }
        done.store(true, Ordering::SeqCst);
        sends
    };
    let (sends, _jn) = tokio::join!(prod_all, janitor);
    let mut polls = vec![];
    for t in ctasks {
        if let Ok(v) = t.await {
            polls.extend(v);
        }
    }
    // quiescence, then the final log
    let expected_n: u64 = sends.iter().filter(|s| s.ok).map(|s| s.n as u64).sum();
    let who = Consumer::new(Identifier::numeric(9999).unwrap());
    let mut final_log: Vec<String> = vec![];
    let mut tries = 0;
    loop {
        final_log.clear();
        let mut off = 0u64;
        let mut bad = false;
        loop {
            let r = timed("scan", ctl.poll_messages(&sid(), &tid(), Some(1), &who, &PollingStrategy::offset(off), 200, false)).await?;
            let pm = match r {
                Ok(p) => p,
                Err(e) => return Err(Stop::Inconclusive(format!("final scan: {e}"))),
            };
            if pm.messages.is_empty() {
                break;
            }
            for m in &pm.messages {
                if m.offset != off {
                    bad = true;
                }
                final_log.push(tag_of(&m.payload));
                off += 1;
            }
        }
        let unknown: u64 = sends.iter().filter(|s| !s.ok).map(|s| s.n as u64).sum();
        if !bad && final_log.len() as u64 >= expected_n && final_log.len() as u64 <= expected_n + unknown {
            break;
        }
        tries += 1;
        if !cfg.no_wait || tries > NOWAIT_RETRIES {
            break;
        }
        tokio::time::sleep(Duration::from_millis(2)).await;
    }
    let segments = match timed("get_topic", ctl.get_topic(&sid(), &tid())).await? {
        Ok(Some(t)) => t.partitions.first().map(|p| p.segments_count).unwrap_or(0),
        _ => 0,
    };
    Ok(Outcome { sends, polls, final_log, cfg: cfg.clone(), producers, consumers, segments })
}

/// Offline checker over one recorded history.
fn check(hist: u64, o: &Outcome, rep: &mut ShardReport) -> Vec<Violation> {
    let mut out = vec![];
    let wait = !o.cfg.no_wait;
    // ---- 1. the final log
    let mut pos: HashMap<String, u64> = HashMap::new();
    for (i, t) in o.final_log.iter().enumerate() {
        rep.eval("C12:final-no-duplicates");
        if pos.insert(t.clone(), i as u64).is_some() {
            out.push(cv(hist, o, "final-no-duplicates", "message-twice", json!({"tag": t, "offsets": [pos[t], i]})));
            return out;
        }
    }
    let mut last_first: BTreeMap<u32, i64> = BTreeMap::new();
    let mut sends = o.sends.clone();
    sends.sort_by_key(|s| (s.producer, s.batch));
    let mut batch_range: HashMap<(u32, u32), (u64, u64)> = HashMap::new();
    for s in &sends {
        let t0 = format!("{:x}/{}/{}/0/{}", hist & 0xffff_ffff, s.producer, s.batch, s.n);
        let first = pos.get(&t0).copied();
        rep.eval("C12:acked-present-contiguous");
        match (first, s.ok) {
            (None, true) => {
                out.push(cv(hist, o, "acked-present-contiguous", "acked-batch-lost", json!({"producer": s.producer, "batch": s.batch, "n": s.n, "final_log_len": o.final_log.len()})));
                return out;
            }
            (None, false) => continue,
            (Some(f), _) => {
                for i in 0..s.n {
                    let ti = format!("{:x}/{}/{}/{}/{}", hist & 0xffff_ffff, s.producer, s.batch, i, s.n);
                    if pos.get(&ti).copied() != Some(f + i as u64) {
                        out.push(cv(hist, o, "acked-present-contiguous", "batch-not-contiguous", json!({"producer": s.producer, "batch": s.batch, "first_offset": f, "index": i, "found_at": pos.get(&ti)})));
                        return out;
                    }
                }
                batch_range.insert((s.producer, s.batch), (f, f + s.n as u64 - 1));
                rep.eval("C12:producer-order");
                let prev = last_first.get(&s.producer).copied().unwrap_or(-1);
                if (f as i64) <= prev {
                    out.push(cv(hist, o, "producer-order", "batches-reordered", json!({"producer": s.producer, "batch": s.batch, "first_offset": f, "previous_batch_first_offset": prev})));
                    return out;
                }
                last_first.insert(s.producer, f as i64);
            }
        }
    }
    rep.eval("C12:final-only-sent");
    let total_sent: u64 = o.sends.iter().map(|s| s.n as u64).sum();
    if o.final_log.len() as u64 > total_sent || o.final_log.iter().any(|t| parse_tag(t).is_none()) {
        out.push(cv(hist, o, "final-only-sent", "foreign-or-extra-message", json!({"final_log_len": o.final_log.len(), "sent": total_sent})));
        return out;
    }
    // ---- 2..4 every poll
    let mut sends_by_ret: Vec<(u128, u64)> = vec![]; // (ack instant, last offset of the batch)
    for s in o.sends.iter().filter(|s| s.ok) {
        if let Some((_, b)) = batch_range.get(&(s.producer, s.batch)) {
            sends_by_ret.push((s.ret, *b));
        }
    }
    sends_by_ret.sort();
    // prefix max of acked offsets over ack time
    let mut pm = 0u64;
    let prefix: Vec<(u128, u64)> = sends_by_ret
        .iter()
        .map(|(t, b)| {
            pm = pm.max(*b);
            (*t, pm)
        })
        .collect();
    for q in &o.polls {
        if let Some(e) = &q.err {
            rep.eval("C12:poll-ok");
            out.push(cv(hist, o, "poll-ok", "poll-error", json!({"consumer": q.consumer, "kind": q.kind, "offset": q.offset, "count": q.count, "error": e})));
            return out;
        }
        let offs: Vec<u64> = q.got.iter().map(|x| x.0).collect();
        rep.eval("C12:poll-contiguous-run");
        if offs.windows(2).any(|w| w[1] != w[0] + 1) {
            let trig = if wait { "hole-or-disorder" } else { "not-prefix-inflight" };
            out.push(cv(hist, o, "poll-contiguous-run", trig, json!({"consumer": q.consumer, "kind": q.kind, "offset": q.offset, "count": q.count, "got": compress(&offs)})));
            return out;
        }
        if q.kind == "offset" && !offs.is_empty() && offs[0] != q.offset {
            let trig = if wait { "does-not-start-at-requested-offset" } else { "not-prefix-inflight" };
            out.push(cv(hist, o, "poll-contiguous-run", trig, json!({"consumer": q.consumer, "offset": q.offset, "count": q.count, "got": compress(&offs)})));
            return out;
        }
        if offs.len() as u32 > q.count {
            out.push(cv(hist, o, "poll-contiguous-run", "more-than-count", json!({"count": q.count, "got": compress(&offs)})));
            return out;
        }
        rep.eval("C12:poll-agrees-with-final-log");
        for (off, tag) in &q.got {
            if o.final_log.get(*off as usize) != Some(tag) {
                out.push(cv(hist, o, "poll-agrees-with-final-log", "offset-tag-differs", json!({"consumer": q.consumer, "offset": off, "polled": tag, "final_log": o.final_log.get(*off as usize)})));
                return out;
            }
        }
        let overlapped = o.sends.iter().any(|s| s.call < q.ret && q.call < s.ret);
        if overlapped {
            rep.event("poll_overlapping_inflight_send");
        }
        if wait && !offs.is_empty() && (offs.len() as u32) < q.count {
            // 3. a short result ends where the visible log ended: on the last message of a batch
            rep.eval("C12:atomic-batch-visibility");
            let (_, tag) = q.got.last().unwrap();
            if let Some((_, _, i, n)) = parse_tag(tag) {
                if i + 1 != n {
                    out.push(cv(hist, o, "atomic-batch-visibility", "torn-batch", json!({"consumer": q.consumer, "kind": q.kind, "offset": q.offset, "count": q.count, "got": compress(&offs), "last_tag": tag})));
                    return out;
                }
                if overlapped {
                    rep.event("short_poll_ended_on_batch_boundary_during_inflight_send");
                }
            }
        }
        if wait && q.kind == "offset" {
            // 4. real-time visibility: everything acknowledged before the poll was called
            let idx = prefix.partition_point(|(t, _)| *t < q.call);
            if idx > 0 {
                let max_acked = prefix[idx - 1].1;
                let want_last = (q.offset + q.count as u64 - 1).min(max_acked);
                if q.offset <= want_last {
                    rep.eval("C12:acked-visible");
                    let got_last = offs.last().copied();
                    if got_last.map(|l| l < want_last).unwrap_or(true) {
                        out.push(cv(hist, o, "acked-visible", "acked-message-missing-from-later-poll", json!({"consumer": q.consumer, "offset": q.offset, "count": q.count, "got": compress(&offs),
                            "acknowledged_before_the_poll_up_to_offset": max_acked, "poll_called_ns": q.call.to_string()})));
                        return out;
                    }
                }
            }
        }
    }
    out
}

pub async fn run(ctx: &Ctx, rep: &mut ShardReport) {
    let cache = CacheMode::for_shard(ctx.shard);
    rep.process_cfg = cache.name().into();
    arm_sched(ctx.seed ^ ((ctx.shard as u64) << 32));
    let replay = ctx.replay.as_ref().and_then(|p| std::fs::read_to_string(p).ok()).and_then(|t| serde_json::from_str::<Value>(&t).ok());
    let mut k = 0u64;
    let mut replay_rounds = 0;
    while ctx.time_left() {
        let hseed = match &replay {
            Some(v) => v["witness"]["history"].as_u64().unwrap_or(1),
            None => ctx.hist_seed(k),
        };
        k += 1;
        let r = run_history(hseed, cache).await;
        rep.histories += 1;
        match r {
            Ok(o) => {
                rep.op_n("send", o.sends.len() as u64);
                rep.op_n("poll", o.polls.len() as u64);
                let class = format!("{}|{}", o.cfg.class(cache), if o.segments > 1 { "rolled" } else { "one-seg" });
                rep.config_classes.insert(class.clone());
                if o.segments > 1 {
                    rep.event("segment_rollover_during_traffic");
                }
                if o.cfg.no_wait {
                    rep.event("nowait_history");
                }
                // distinct interleavings: the producer sequence of the final log
                let seq: Vec<u8> = o.final_log.iter().filter_map(|t| parse_tag(t).map(|x| x.0 as u8)).collect();
                let switches = seq.windows(2).filter(|w| w[0] != w[1]).count();
                if switches > 0 {
                    rep.histories_nontrivial += 1;
                    rep.shapes.insert(format!("{:016x}", fnv64(&seq) ^ fnv64(class.as_bytes())));
                }
                let vs = check(hseed, &o, rep);
                let panics = take_server_panics();
                if !panics.is_empty() && vs.is_empty() {
                    rep.violation(cv(hseed, &o, "no-panic", "server-panic", json!({"panics": panics})));
                }
                if vs.is_empty() && rep.samples.len() < 2 && switches > 3 {
                    rep.sample(json!({"history": format!("{:016x}", hseed), "config": class, "producers": o.producers, "consumers": o.consumers, "sends": o.sends.len(), "polls": o.polls.len(),
                        "final_log_head": o.final_log.iter().take(12).collect::<Vec<_>>(), "producer_switches_in_final_log": switches}));
                }
                for v in vs {
                    rep.violation(v);
                }
            }
            Err(Stop::Violation(v)) => rep.violation(v),
            Err(Stop::Inconclusive(r)) => rep.inconclusive(&r.chars().take(60).collect::<String>()),
            Err(Stop::Stall(x)) => rep.inconclusive(&format!("stall:{x}")),
        }
        if replay.is_some() {
            replay_rounds += 1;
            if replay_rounds >= 20 || !rep.violations.is_empty() {
                rep.notes.push(format!("replay: {} re-executions of the same seed/configuration, violation reproduced: {}", replay_rounds, !rep.violations.is_empty()));
                break;
            }
        }
    }
    rep.event_n("sched_points_hit", SCHED_HITS.load(Ordering::Relaxed));
    rep.event_n("sched_points_delayed", SCHED_DELAYS.load(Ordering::Relaxed));
    rep.extra.insert("required_events".into(), json!(["poll_overlapping_inflight_send", "segment_rollover_during_traffic", "sched_points_hit", "nowait_history"]));
}
