//! A thin binary transport: the SDK's own command encoders and response decoders
//! (`impl<B: BinaryClient> XClient for B`), but a transport that never retries, never
//! reconnects, never gates on client-side state and reports the server's exact status code.

use async_broadcast::{broadcast, Receiver, Sender};
use async_trait::async_trait;
use bytes::{Bytes, BytesMut};
use iggy::binary::binary_client::BinaryClient;
use iggy::binary::{BinaryTransport, ClientState};
use iggy::client::Client;
use iggy::command::Command;
use iggy::diagnostic::DiagnosticEvent;
use iggy::error::IggyError;
use iggy::utils::duration::IggyDuration;
use std::net::SocketAddr;
use std::sync::atomic::{AtomicBool, AtomicU32, AtomicU64, Ordering};
use tokio::io::{AsyncReadExt, AsyncWriteExt};
use tokio::net::TcpStream;
use tokio::sync::Mutex;

#[derive(Debug)]
pub struct RawClient {
    stream: Mutex<Option<TcpStream>>,
    pub addr: SocketAddr,
    pub broken: AtomicBool,
    pub last_status: AtomicU32,
    pub requests: AtomicU64,
    events: (Sender<DiagnosticEvent>, Receiver<DiagnosticEvent>),
    /// observer of every request/response pair, called in wire order (C20 records fetches and commits here)
    pub tap: std::sync::Mutex<Option<Tap>>,
}

#[derive(Clone)]
pub struct Tap(pub std::sync::Arc<dyn Fn(u32, &Bytes, Result<&[u8], u32>) + Send + Sync>);
impl std::fmt::Debug for Tap {
    fn fmt(&self, f: &mut std::fmt::Formatter<'_>) -> std::fmt::Result {
        f.write_str("Tap")
    }
}

impl RawClient {
    pub async fn connect(addr: SocketAddr) -> Result<RawClient, String> {
        let stream = TcpStream::connect(addr).await.map_err(|e| format!("connect: {e}"))?;
        let _ = stream.set_nodelay(true);
        Ok(RawClient {
            stream: Mutex::new(Some(stream)),
            addr,
            broken: AtomicBool::new(false),
            last_status: AtomicU32::new(0),
            requests: AtomicU64::new(0),
            events: broadcast(16),
            tap: std::sync::Mutex::new(None),
        })
    }

    pub fn is_broken(&self) -> bool {
        self.broken.load(Ordering::SeqCst)
    }

    /// Closes the socket abruptly (what a dying client does).
    pub async fn drop_socket(&self) {
        let mut g = self.stream.lock().await;
        *g = None;
        self.broken.store(true, Ordering::SeqCst);
    }

    /// Sends arbitrary bytes and tries to read one response header; for malformed-frame tests.
    pub async fn send_garbage(&self, bytes: &[u8], read_timeout_ms: u64) -> GarbageOutcome {
        let mut g = self.stream.lock().await;
        let Some(stream) = g.as_mut() else {
            return GarbageOutcome::Closed;
        };
        if stream.write_all(bytes).await.is_err() {
            *g = None;
            self.broken.store(true, Ordering::SeqCst);
            return GarbageOutcome::Closed;
        }
        let _ = stream.flush().await;
        let mut hdr = [0u8; 8];
        match tokio::time::timeout(std::time::Duration::from_millis(read_timeout_ms), stream.read_exact(&mut hdr)).await {
            Err(_) => GarbageOutcome::NoReply,
            Ok(Err(_)) => {
                *g = None;
                self.broken.store(true, Ordering::SeqCst);
                GarbageOutcome::Closed
            }
            Ok(Ok(_)) => {
                let status = u32::from_le_bytes(hdr[..4].try_into().unwrap());
                let length = u32::from_le_bytes(hdr[4..].try_into().unwrap());
                let mut body = vec![0u8; length.min(64 << 20) as usize];
                if length > 0 && stream.read_exact(&mut body).await.is_err() {
                    *g = None;
                    self.broken.store(true, Ordering::SeqCst);
                    return GarbageOutcome::Closed;
                }
                GarbageOutcome::Reply { status, body }
            }
        }
    }

    async fn roundtrip(&self, code: u32, payload: Bytes) -> Result<Bytes, IggyError> {
        self.requests.fetch_add(1, Ordering::SeqCst);
        let mut g = self.stream.lock().await;
        let Some(stream) = g.as_mut() else {
            return Err(IggyError::NotConnected);
        };
        let mut frame = BytesMut::with_capacity(8 + payload.len());
        frame.extend_from_slice(&((payload.len() + 4) as u32).to_le_bytes());
        frame.extend_from_slice(&code.to_le_bytes());
        frame.extend_from_slice(&payload);
        let io = async {
            stream.write_all(&frame).await?;
            stream.flush().await?;
            let mut hdr = [0u8; 8];
            stream.read_exact(&mut hdr).await?;
            let status = u32::from_le_bytes(hdr[..4].try_into().unwrap());
            let length = u32::from_le_bytes(hdr[4..].try_into().unwrap());
            let mut body = vec![0u8; length as usize];
            if status == 0 && length > 0 {
                stream.read_exact(&mut body).await?;
            }
            Ok::<_, std::io::Error>((status, body))
        };
        let tap = self.tap.lock().unwrap().clone();
        match io.await {
            Ok((status, body)) => {
                self.last_status.store(status, Ordering::SeqCst);
                if let Some(tap) = tap {
                    (tap.0)(code, &payload, if status == 0 { Ok(&body[..]) } else { Err(status) });
                }
                if status != 0 {
                    return Err(IggyError::from_code(status));
                }
                if body.len() <= 1 {
                    // the SDK's TCP client treats length <= 1 as an empty response
                    return Ok(Bytes::new());
                }
                Ok(Bytes::from(body))
            }
            Err(_) => {
                *g = None;
                self.broken.store(true, Ordering::SeqCst);
                Err(IggyError::Disconnected)
            }
        }
    }
}

#[derive(Debug)]
pub enum GarbageOutcome {
    Reply { status: u32, body: Vec<u8> },
    NoReply,
    Closed,
}

#[async_trait]
impl BinaryTransport for RawClient {
    async fn get_state(&self) -> ClientState {
        // never gate client-side: the server must be the one refusing
        ClientState::Authenticated
    }

    async fn set_state(&self, _state: ClientState) {}

    async fn publish_event(&self, _event: DiagnosticEvent) {}

    async fn send_with_response<T: Command>(&self, command: &T) -> Result<Bytes, IggyError> {
        command.validate()?;
        self.roundtrip(command.code(), command.to_bytes()).await
    }

    async fn send_raw_with_response(&self, code: u32, payload: Bytes) -> Result<Bytes, IggyError> {
        self.roundtrip(code, payload).await
    }

    fn get_heartbeat_interval(&self) -> IggyDuration {
        IggyDuration::from(5_000_000u64)
    }
}

#[async_trait]
impl Client for RawClient {
    async fn connect(&self) -> Result<(), IggyError> {
        Ok(())
    }
    async fn disconnect(&self) -> Result<(), IggyError> {
        self.drop_socket().await;
        Ok(())
    }
    async fn shutdown(&self) -> Result<(), IggyError> {
        self.drop_socket().await;
        Ok(())
    }
    async fn subscribe_events(&self) -> Receiver<DiagnosticEvent> {
        self.events.1.clone()
    }
}

impl BinaryClient for RawClient {}

/// Sends a command without client-side validation (for hostile-but-well-formed requests).
pub async fn send_unvalidated<T: Command>(c: &RawClient, command: &T) -> Result<Bytes, IggyError> {
    c.send_raw_with_response(command.code(), command.to_bytes()).await
}
