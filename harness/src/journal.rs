//! C11: the state journal stays loadable and tamper-evident.
//! (a) concurrent commands (server level and direct `FileState::apply`), (b) injected append failures,
//! (c) enumeration of truncations, byte mutations and entry permutations of valid journals.

use crate::checks::Ctx;
use crate::conc::arm_sched;
use crate::inst::{scratch_root, take_server_panics, CacheMode, ServerInstance, StorageCfg, ENC_KEY_A};
use crate::raw::RawClient;
use crate::report::{ShardReport, Violation};
use crate::rng::Rng;
use crate::world::{timed, Stop, R};
use iggy::client::*;
use iggy::compression::compression_algorithm::CompressionAlgorithm;
use iggy::identifier::Identifier;
use iggy::streams::create_stream::CreateStream;
use iggy::streams::purge_stream::PurgeStream;
use iggy::utils::crypto::{Aes256GcmEncryptor, EncryptorKind};
use iggy::utils::expiry::IggyExpiry;
use iggy::utils::topic_size::MaxTopicSize;
use serde_json::{json, Value};
use server::state::command::EntryCommand;
use server::state::file::FileState;
use server::state::State;
use server::streaming::persistence::persister::{FilePersister, FileWithSyncPersister, PersisterKind};
use server::versioning::SemanticVersion;
use std::collections::BTreeMap;
use std::path::{Path, PathBuf};
use std::sync::atomic::{AtomicU64, Ordering};
use std::sync::Arc;

// ---------------------------------------------------------------------------------------------
// independent parser

fn crc32(data: &[u8]) -> u32 {
    let mut table = [0u32; 256];
    for i in 0..256u32 {
        let mut c = i;
        for _ in 0..8 {
            c = if c & 1 != 0 { 0xEDB8_8320 ^ (c >> 1) } else { c >> 1 };
        }
        table[i as usize] = c;
    }
    let mut crc = 0xFFFF_FFFFu32;
    for b in data {
        crc = table[((crc ^ *b as u32) & 0xff) as usize] ^ (crc >> 8);
    }
    crc ^ 0xFFFF_FFFF
}

#[derive(Clone, Debug, PartialEq)]
pub struct PEntry {
    pub start: usize,
    pub end: usize,
    pub index: u64,
    pub user_id: u32,
    pub checksum: u32,
    pub code: u32,
    pub payload: Vec<u8>,
    pub checksum_ok: bool,
    /// offsets (within the file) of the two length fields
    pub ctx_len_at: usize,
    pub cmd_len_at: usize,
}

fn rd_u32(b: &[u8], at: usize) -> Option<u32> {
    b.get(at..at + 4).map(|x| u32::from_le_bytes(x.try_into().unwrap()))
}
fn rd_u64(b: &[u8], at: usize) -> Option<u64> {
    b.get(at..at + 8).map(|x| u64::from_le_bytes(x.try_into().unwrap()))
}

/// Parses a journal file without using any iggy code. `clear` = payloads are not encrypted (checksums can be verified).
pub fn parse_journal(b: &[u8], clear: bool) -> Result<Vec<PEntry>, String> {
    let mut v = vec![];
    let mut at = 0usize;
    while at < b.len() {
        let start = at;
        let index = rd_u64(b, at).ok_or("cut in index")?;
        let _term = rd_u64(b, at + 8).ok_or("cut in term")?;
        let _leader = rd_u32(b, at + 16).ok_or("cut")?;
        let _version = rd_u32(b, at + 20).ok_or("cut")?;
        let _flags = rd_u64(b, at + 24).ok_or("cut")?;
        let _ts = rd_u64(b, at + 32).ok_or("cut")?;
        let user_id = rd_u32(b, at + 40).ok_or("cut")?;
        let checksum = rd_u32(b, at + 44).ok_or("cut")?;
        let ctx_len_at = at + 48;
        let ctx_len = rd_u32(b, at + 48).ok_or("cut")? as usize;
        let ctx = b.get(at + 52..at + 52 + ctx_len).ok_or("cut in context")?;
        let p = at + 52 + ctx_len;
        let code = rd_u32(b, p).ok_or("cut in code")?;
        let cmd_len_at = p + 4;
        let cmd_len = rd_u32(b, p + 4).ok_or("cut in length")? as usize;
        let payload = b.get(p + 8..p + 8 + cmd_len).ok_or("cut in command")?;
        let end = p + 8 + cmd_len;
        let mut cs = Vec::with_capacity(48 + ctx_len + 8 + cmd_len);
        cs.extend_from_slice(&b[at..at + 44]);
        cs.extend_from_slice(&(ctx_len as u32).to_le_bytes());
        cs.extend_from_slice(ctx);
        cs.extend_from_slice(&b[p..end]);
        let checksum_ok = !clear || crc32(&cs) == checksum;
        v.push(PEntry { start, end, index, user_id, checksum, code, payload: payload.to_vec(), checksum_ok, ctx_len_at, cmd_len_at });
        at = end;
    }
    Ok(v)
}

fn jv(clause: &str, trig: &str, w: Value) -> Violation {
    Violation { property: "C11".into(), clause: clause.into(), signature: format!("C11:{clause}/{trig}"), witness: json!({"first_bad": w, "server_panics": take_server_panics()}) }
}

/// journal invariant: consecutive indices from 0 in file order, every checksum matches
fn check_well_formed(bytes: &[u8], clear: bool, ctx: &Value, rep: &mut ShardReport) -> Result<Vec<PEntry>, Violation> {
    rep.eval("C11:well-formed");
    let entries = match parse_journal(bytes, clear) {
        Ok(e) => e,
        Err(e) => return Err(jv("well-formed", "unparsable", json!({"context": ctx, "parser": e, "file_len": bytes.len()}))),
    };
    for (i, e) in entries.iter().enumerate() {
        if e.index != i as u64 {
            let idx: Vec<u64> = entries.iter().map(|x| x.index).collect();
            let trig = if idx.windows(2).any(|w| w[1] < w[0]) { "indices-out-of-order" } else { "index-gap-or-duplicate" };
            return Err(jv("well-formed", trig, json!({"context": ctx, "indices_in_file_order": idx})));
        }
        if !e.checksum_ok {
            return Err(jv("well-formed", "checksum-mismatch", json!({"context": ctx, "entry": i})));
        }
    }
    Ok(entries)
}

fn file_state(path: &Path, fsync: bool, enc: bool) -> FileState {
    let persister = if fsync { Arc::new(PersisterKind::FileWithSync(FileWithSyncPersister)) } else { Arc::new(PersisterKind::File(FilePersister)) };
    let encryptor = if enc { Some(Arc::new(EncryptorKind::Aes256Gcm(Aes256GcmEncryptor::from_base64_key(ENC_KEY_A).unwrap()))) } else { None };
    FileState::new(path.to_str().unwrap(), &SemanticVersion::current().unwrap(), persister, encryptor)
}

// ---------------------------------------------------------------------------------------------
// (a)/(b) direct mode

static FAULT_COUNTER: AtomicU64 = AtomicU64::new(0);
static FAULT_EVERY: AtomicU64 = AtomicU64::new(0);
static FAULTS_INJECTED: AtomicU64 = AtomicU64::new(0);

fn arm_faults() {
    server::verif::set_persister_fault_policy(Some(Box::new(|op: &str, path: &str| {
        let every = FAULT_EVERY.load(Ordering::SeqCst);
        if every == 0 || op != "append" || !path.contains("c11-direct") {
            return false;
        }
        let n = FAULT_COUNTER.fetch_add(1, Ordering::SeqCst) + 1;
        if n % every == 0 {
            FAULTS_INJECTED.fetch_add(1, Ordering::SeqCst);
            true
        } else {
            false
        }
    })));
}

/// Many tasks call `apply` on one FileState concurrently - exactly what concurrent purge handlers
/// (shared system lock) plus one catalogue writer do. Returns the journal bytes for the tamper part.
async fn direct_history(hseed: u64, rep: &mut ShardReport) -> Result<Option<(Vec<u8>, bool)>, Violation> {
    let mut rng = Rng::new(hseed);
    let dir = scratch_root().join(format!("c11-direct-{:016x}", hseed));
    let _ = std::fs::create_dir_all(&dir);
    let path = dir.join("log");
    let fsync = rng.chance(1, 3);
    let enc = rng.chance(1, 4);
    let tasks = rng.range(1, 8) as usize;
    let per = rng.range(2, 12) as usize;
    let fault_every = if rng.chance(1, 2) { rng.range(2, 7) } else { 0 };
    FAULT_COUNTER.store(0, Ordering::SeqCst);
    FAULT_EVERY.store(fault_every, Ordering::SeqCst);
    let st = Arc::new(file_state(&path, fsync, enc));
    let ctxv = json!({"mode": "direct FileState::apply", "history": format!("{:016x}", hseed), "tasks": tasks, "applies_per_task": per, "fail_every_kth_append": fault_every, "fsync": fsync, "encryption": enc});
    if st.init().await.is_err() {
        FAULT_EVERY.store(0, Ordering::SeqCst);
        let _ = std::fs::remove_dir_all(&dir);
        return Ok(None);
    }
    // a first entry, as the server always has (root user creation happens before anything concurrent)
    FAULT_EVERY.store(0, Ordering::SeqCst);
    let _ = st.apply(0, EntryCommand::CreateStream(CreateStream { stream_id: Some(999_999), name: "first".into() })).await;
    FAULT_EVERY.store(fault_every, Ordering::SeqCst);
    let mut hs = vec![];
    for t in 0..tasks {
        let st = st.clone();
        hs.push(tokio::spawn(async move {
            let mut res = vec![];
            for k in 0..per {
                let id = (t * 1000 + k + 1) as u32;
                let cmd = if k % 3 == 0 {
                    EntryCommand::CreateStream(CreateStream { stream_id: Some(id), name: format!("direct-{id}") })
                } else {
                    EntryCommand::PurgeStream(PurgeStream { stream_id: Identifier::numeric(id).unwrap() })
                };
                let r = st.apply(t as u32 + 10, cmd).await;
                res.push((id, t as u32 + 10, r.is_ok()));
                if k % 2 == 0 {
                    tokio::task::yield_now().await;
                }
            }
            res
        }));
    }
    let mut acked: Vec<(u32, u32)> = vec![];
    let mut failed: Vec<(u32, u32)> = vec![];
    for h in hs {
        match h.await {
            Ok(v) => {
                for (id, user, ok) in v {
                    if ok {
                        acked.push((id, user));
                    } else {
                        failed.push((id, user));
                    }
                }
            }
            Err(e) => {
                FAULT_EVERY.store(0, Ordering::SeqCst);
                return Err(jv("no-panic", "apply-panicked", json!({"context": ctxv, "join_error": e.to_string()})));
            }
        }
    }
    FAULT_EVERY.store(0, Ordering::SeqCst);
    rep.op_n("direct_apply", (acked.len() + failed.len()) as u64);
    if tasks > 1 {
        rep.event("direct_concurrent_history");
    }
    if !failed.is_empty() {
        rep.event_n("append_failures_injected", failed.len() as u64);
        // (b) after failures further commands must succeed
        rep.eval("C11:recovers-after-failed-append");
        let r = st.apply(1, EntryCommand::PurgeStream(PurgeStream { stream_id: Identifier::numeric(777_777).unwrap() })).await;
        if r.is_err() {
            return Err(jv("recovers-after-failed-append", "later-command-refused", json!({"context": ctxv, "error": r.unwrap_err().to_string()})));
        }
        acked.push((777_777, 1));
    }
    let bytes = std::fs::read(&path).unwrap_or_default();
    let res = (|| {
        let entries = check_well_formed(&bytes, !enc, &ctxv, rep)?;
        // every acknowledged apply exactly once, every failed one absent
        if !enc {
            rep.eval("C11:journal-equals-acknowledged");
            let mut seen: BTreeMap<(u32, u32), u32> = BTreeMap::new();
            for e in entries.iter().skip(1) {
                // the stream id is the first u32 of a CreateStream payload, or bytes 2..6 of a numeric identifier
                let id = if e.code == 202 { rd_u32(&e.payload, 0) } else { rd_u32(&e.payload, 2) }.unwrap_or(0);
                *seen.entry((id, e.user_id)).or_insert(0) += 1;
            }
            for a in &acked {
                if seen.get(a).copied().unwrap_or(0) != 1 {
                    return Err(jv("journal-equals-acknowledged", "acknowledged-entry-missing-or-duplicated", json!({"context": ctxv, "command_id": a.0, "times_in_journal": seen.get(a)})));
                }
            }
            for f in &failed {
                if seen.contains_key(f) {
                    return Err(jv("journal-equals-acknowledged", "failed-command-was-journalled", json!({"context": ctxv, "command_id": f.0})));
                }
            }
        }
        Ok(())
    })();
    if let Err(v) = res {
        let _ = std::fs::remove_dir_all(&dir);
        return Err(v);
    }
    // the real loader must accept it
    rep.eval("C11:loader-accepts");
    let st2 = file_state(&path, false, enc);
    let loaded = st2.load_entries().await;
    let _ = std::fs::remove_dir_all(&dir);
    match loaded {
        Ok(l) => {
            if l.len() != acked.len() + 1 {
                return Err(jv("loader-accepts", "entry-count-differs", json!({"context": ctxv, "loaded": l.len(), "acknowledged": acked.len() + 1})));
            }
        }
        Err(e) => return Err(jv("loader-accepts", "loader-rejects-own-journal", json!({"context": ctxv, "error": e.to_string()}))),
    }
    Ok(Some((bytes, enc)))
}

// ---------------------------------------------------------------------------------------------
// (a) server level: concurrent connections, exclusive-lock and shared-lock commands

fn sid(i: u32) -> Identifier {
    Identifier::numeric(i).unwrap()
}

async fn server_history(hseed: u64, cache: CacheMode, rep: &mut ShardReport) -> R<Option<(Vec<u8>, bool)>> {
    let mut rng = Rng::new(hseed);
    let mut cfg = StorageCfg::random(&mut rng);
    cfg.no_wait = false;
    cfg.workers = 4;
    cfg.encryption = rng.chance(1, 5);
    let dir = scratch_root().join(format!("c11-srv-{:016x}", hseed));
    let inst = ServerInstance::start(&dir, &cfg, cache).await.map_err(|e| Stop::Inconclusive(format!("{e:?}")))?;
    let root = RawClient::connect(inst.tcp_addr).await.map_err(Stop::Inconclusive)?;
    timed("login", root.login_user("iggy", "iggy")).await?.map_err(|e| Stop::Inconclusive(e.to_string()))?;
    let mut acked = 1u64; // root user creation
    for s in 1..=2u32 {
        timed("create_stream", root.create_stream(&format!("fix-{s}"), Some(s))).await?.map_err(|e| Stop::Inconclusive(e.to_string()))?;
        timed("create_topic", root.create_topic(&sid(s), "fixt", 1, CompressionAlgorithm::None, None, Some(1), IggyExpiry::NeverExpire, MaxTopicSize::Unlimited)).await?.map_err(|e| Stop::Inconclusive(e.to_string()))?;
        acked += 2;
    }
    let nclients = rng.range(2, 8) as usize;
    let per = rng.range(3, 12) as usize;
    let addr = inst.tcp_addr;
    let mut hs = vec![];
    for c in 0..nclients {
        let mut r = rng.derive(c as u64 + 5);
        hs.push(tokio::spawn(async move {
            let mut ok = 0u64;
            let mut purges = 0u64;
            let Ok(cl) = RawClient::connect(addr).await else { return (0u64, 0u64, false) };
            if cl.login_user("iggy", "iggy").await.is_err() {
                return (0, 0, false);
            }
            for k in 0..per {
                let res = match r.below(5) {
                    // journalled under the shared lock
                    0..=1 => {
                        purges += 1;
                        cl.purge_stream(&sid(1 + (k as u32 % 2))).await
                    }
                    2 => {
                        purges += 1;
                        cl.purge_topic(&sid(1 + (k as u32 % 2)), &sid(1)).await
                    }
                    // journalled under the exclusive lock (downgraded for the append)
                    3 => cl.create_stream(&format!("conc-{c}-{k}"), None).await.map(|_| ()),
                    _ => cl.create_user(&format!("cuser-{c}-{k}"), "password-1234", iggy::models::user_status::UserStatus::Active, None).await.map(|_| ()),
                };
                if res.is_ok() {
                    ok += 1;
                } else {
                    return (ok, purges, false);
                }
            }
            (ok, purges, true)
        }));
    }
    let mut all_ok = true;
    let mut purges = 0;
    for h in hs {
        if let Ok((n, p, fine)) = h.await {
            acked += n;
            purges += p;
            all_ok &= fine;
        }
    }
    rep.op_n("server_concurrent_command", acked);
    rep.event_n("commands_journalled_under_shared_lock", purges);
    drop(root);
    let _ = inst.stop(true).await;
    let panics = take_server_panics();
    let ctxv = json!({"mode": "concurrent connections", "history": format!("{:016x}", hseed), "clients": nclients, "commands_per_client": per, "acknowledged": acked, "encryption": cfg.encryption, "state_fsync": cfg.state_fsync});
    let fin = |dir: &PathBuf| {
        let _ = std::fs::remove_dir_all(dir);
    };
    if !panics.is_empty() {
        fin(&dir);
        return Err(Stop::Violation(jv("no-panic", "server", json!({"context": ctxv, "panics": panics}))));
    }
    if !all_ok {
        fin(&dir);
        return Err(Stop::Inconclusive("a concurrent command failed".into()));
    }
    let bytes = std::fs::read(dir.join("state/log")).unwrap_or_default();
    let entries = match check_well_formed(&bytes, !cfg.encryption, &ctxv, rep) {
        Ok(e) => e,
        Err(v) => {
            fin(&dir);
            return Err(Stop::Violation(v));
        }
    };
    rep.eval("C11:journal-equals-acknowledged");
    if entries.len() as u64 != acked {
        fin(&dir);
        return Err(Stop::Violation(jv("journal-equals-acknowledged", "entry-count-differs", json!({"context": ctxv, "entries": entries.len(), "acknowledged_commands": acked}))));
    }
    // the server must start from it
    rep.eval("C11:server-starts");
    match ServerInstance::start(&dir, &cfg, cache).await {
        Ok(i) => {
            let _ = i.stop(false).await;
        }
        Err(e) => {
            fin(&dir);
            return Err(Stop::Violation(jv("server-starts", "start-failed", json!({"context": ctxv, "error": format!("{e:?}")}))));
        }
    }
    fin(&dir);
    rep.event("server_concurrent_history");
    Ok(Some((bytes, cfg.encryption)))
}

// ---------------------------------------------------------------------------------------------
// (c) tamper evidence

#[derive(Debug, Clone)]
enum Mutation {
    Truncate(usize),
    Byte(usize, u8),
    RemoveEntry(usize),
    DuplicateEntry(usize),
    SwapAdjacent(usize),
    RemovePrefix(usize),
}

fn apply_mutation(orig: &[u8], entries: &[PEntry], m: &Mutation) -> Vec<u8> {
    match m {
        Mutation::Truncate(n) => orig[..*n].to_vec(),
        Mutation::Byte(at, v) => {
            let mut b = orig.to_vec();
            b[*at] = *v;
            b
        }
        Mutation::RemoveEntry(i) => [&orig[..entries[*i].start], &orig[entries[*i].end..]].concat(),
        Mutation::DuplicateEntry(i) => [&orig[..entries[*i].end], &orig[entries[*i].start..entries[*i].end], &orig[entries[*i].end..]].concat(),
        Mutation::SwapAdjacent(i) => {
            let (a, b) = (&entries[*i], &entries[*i + 1]);
            [&orig[..a.start], &orig[b.start..b.end], &orig[a.start..a.end], &orig[b.end..]].concat()
        }
        Mutation::RemovePrefix(k) => orig[entries[*k].start..].to_vec(),
    }
}

static DEADLINE: std::sync::OnceLock<std::time::Instant> = std::sync::OnceLock::new();
static SHARD: std::sync::atomic::AtomicU32 = std::sync::atomic::AtomicU32::new(0);
fn big_ok_shard() -> u32 {
    SHARD.load(std::sync::atomic::Ordering::Relaxed)
}

struct BigLock(i32);
impl BigLock {
    /// serialises the few cases that make the loader allocate gigabytes (mutated length fields) across shard processes
    fn take() -> BigLock {
        let p = std::ffi::CString::new("/dev/shm/iggy-verif-bigalloc.lock").unwrap();
        let fd = unsafe { libc::open(p.as_ptr(), libc::O_CREAT | libc::O_RDWR, 0o644) };
        if fd >= 0 {
            unsafe { libc::flock(fd, libc::LOCK_EX) };
        }
        BigLock(fd)
    }
}
impl Drop for BigLock {
    fn drop(&mut self) {
        if self.0 >= 0 {
            unsafe {
                libc::flock(self.0, libc::LOCK_UN);
                libc::close(self.0);
            }
        }
    }
}

async fn tamper_journal(orig: &[u8], enc: bool, thorough: bool, rng: &mut Rng, rep: &mut ShardReport, jid: u64) -> Result<(), Violation> {
    let entries = match parse_journal(orig, !enc) {
        Ok(e) => e,
        Err(_) => return Ok(()),
    };
    if entries.len() < 2 {
        return Ok(());
    }
    let st0 = {
        let dir = scratch_root().join(format!("c11-t-{:016x}", jid));
        let _ = std::fs::create_dir_all(&dir);
        dir
    };
    let path = st0.join("log");
    // the loaded original, to compare accepted results with
    std::fs::write(&path, orig).ok();
    let base = match file_state(&path, false, enc).load_entries().await {
        Ok(b) => b,
        Err(_) => {
            let _ = std::fs::remove_dir_all(&st0);
            return Ok(());
        }
    };
    let base_sig: Vec<(u64, u32, Vec<u8>)> = base.iter().map(|e| (e.index, e.checksum, e.command.to_vec())).collect();
    let mut muts: Vec<Mutation> = vec![];
    // every truncation length
    for n in 0..orig.len() {
        muts.push(Mutation::Truncate(n));
    }
    // byte mutations
    let exhaustive_bytes = thorough || orig.len() <= 2048;
    for at in 0..orig.len() {
        if !exhaustive_bytes && !rng.chance(1, 4) {
            continue;
        }
        let o = orig[at];
        let vals: Vec<u8> = if thorough {
            let mut v: Vec<u8> = (0..8).map(|b| o ^ (1 << b)).collect();
            v.extend_from_slice(&[0x00, 0xFF, o.wrapping_add(1)]);
            v
        } else {
            vec![o ^ (1 << rng.below(8)), if o == 0 { 0xFF } else { 0 }]
        };
        for v in vals {
            if v != o {
                muts.push(Mutation::Byte(at, v));
            }
        }
    }
    for i in 0..entries.len() {
        muts.push(Mutation::RemoveEntry(i));
        muts.push(Mutation::DuplicateEntry(i));
        if i + 1 < entries.len() {
            muts.push(Mutation::SwapAdjacent(i));
        }
        if i > 0 {
            muts.push(Mutation::RemovePrefix(i));
        }
    }
    rep.event("journal_fully_enumerated");
    let boundaries: Vec<usize> = entries.iter().map(|e| e.end).collect();
    // mutations of the two high bytes of a length field make the loader allocate (and zero) up to 4 GiB before it
    // notices the file is too short: only a bounded number of those is run per journal, one at a time across shards
    // (on a machine with few cores these allocations dominate everything else: only the first shard(s) run them)
    let big_shard = if thorough { big_ok_shard() < 4 } else { big_ok_shard() == 0 };
    let mut big_left: u32 = if !big_shard { 0 } else if thorough { 6 } else { 1 };
    for m in muts {
        // the enumeration of one journal can be long: it never runs far past the shard's time budget
        if DEADLINE.get().map(|d| std::time::Instant::now() > *d).unwrap_or(false) {
            rep.event("enumeration_cut_at_time_budget");
            break;
        }
        let bytes = apply_mutation(orig, &entries, &m);
        if bytes == orig {
            continue;
        }
        let big = match &m {
            Mutation::Byte(at, v) => entries.iter().any(|e| {
                let hi = |f: usize| (*at == f + 3 && *v != 0) || (*at == f + 2 && *v >= 0x10);
                hi(e.ctx_len_at) || hi(e.cmd_len_at)
            }),
            _ => false,
        };
        if big {
            if big_left == 0 {
                rep.event("huge_length_case_skipped");
                continue;
            }
            big_left -= 1;
            rep.event("huge_length_case_run");
        }
        let _guard = if big { Some(BigLock::take()) } else { None };
        std::fs::write(&path, &bytes).ok();
        let st = file_state(&path, false, enc);
        let loaded = tokio::spawn(async move { st.load_entries().await }).await;
        drop(_guard);
        let kind = match &m {
            Mutation::Truncate(_) => "truncate",
            Mutation::Byte(..) => "byte",
            Mutation::RemoveEntry(_) => "remove-entry",
            Mutation::DuplicateEntry(_) => "duplicate-entry",
            Mutation::SwapAdjacent(_) => "swap-entries",
            Mutation::RemovePrefix(_) => "remove-prefix",
        };
        rep.op(&format!("tamper_{kind}"));
        rep.eval("C11:tamper-evident");
        let desc = json!({"mutation": format!("{m:?}"), "journal_entries": entries.len(), "journal_len": orig.len(), "encrypted": enc});
        match loaded {
            Err(join) => {
                let _ = std::fs::remove_dir_all(&st0);
                let _ = take_server_panics();
                return Err(jv("tamper-evident", &format!("loader-panicked/{kind}"), json!({"case": desc, "panic": join.to_string()})));
            }
            Ok(Err(_)) => {
                rep.event("tamper_reported");
            }
            Ok(Ok(l)) => {
                let sig: Vec<(u64, u32, Vec<u8>)> = l.iter().map(|e| (e.index, e.checksum, e.command.to_vec())).collect();
                let is_prefix = sig.len() <= base_sig.len() && base_sig[..sig.len()] == sig[..];
                // losing a whole suffix (a cut exactly at an entry boundary, or the removal of the last entry) is the one change that may go unnoticed
                let clean_cut = matches!(&m, Mutation::Truncate(n) if *n == 0 || boundaries.contains(n)) || matches!(&m, Mutation::RemoveEntry(i) if *i + 1 == entries.len());
                if !(is_prefix && clean_cut) {
                    let _ = std::fs::remove_dir_all(&st0);
                    let trig = if !is_prefix { "accepted-as-different-history" } else { "cut-inside-entry-accepted-silently" };
                    return Err(jv("tamper-evident", &format!("{trig}/{kind}"), json!({"case": desc, "loaded_entries": l.len(), "original_entries": base_sig.len(), "loaded_indices": l.iter().map(|e| e.index).collect::<Vec<_>>()})));
                }
                rep.event("suffix_loss_accepted_as_prefix");
            }
        }
    }
    let _ = std::fs::remove_dir_all(&st0);
    Ok(())
}

pub async fn run(ctx: &Ctx, rep: &mut ShardReport) {
    SHARD.store(ctx.shard, std::sync::atomic::Ordering::Relaxed);
    let _ = DEADLINE.set(ctx.start + std::time::Duration::from_secs(ctx.budget_s + 20));
    let cache = CacheMode::for_shard(ctx.shard);
    rep.process_cfg = cache.name().into();
    arm_sched(ctx.seed ^ 0xC11 ^ ((ctx.shard as u64) << 32));
    arm_faults();
    let mut rng = Rng::new(ctx.seed ^ 0xC11C11 ^ ((ctx.shard as u64) << 20));
    let mut k = 0u64;
    let mut tampered = 0u64;
    while ctx.time_left() && (ctx.thorough() || k < 240) {
        let hseed = ctx.hist_seed(k);
        k += 1;
        rep.histories += 1;
        // alternate: direct, direct, server
        let journal: Option<(Vec<u8>, bool)> = if k % 3 == 0 {
            match server_history(hseed, cache, rep).await {
                Ok(j) => j,
                Err(Stop::Violation(v)) => {
                    rep.violation(v);
                    None
                }
                Err(Stop::Inconclusive(r)) => {
                    rep.inconclusive(&r.chars().take(60).collect::<String>());
                    None
                }
                Err(Stop::Stall(x)) => {
                    rep.inconclusive(&format!("stall:{x}"));
                    None
                }
            }
        } else {
            match direct_history(hseed, rep).await {
                Ok(j) => j,
                Err(v) => {
                    rep.violation(v);
                    None
                }
            }
        };
        rep.histories_nontrivial += 1;
        rep.shapes.insert(format!("{:x}", hseed & 0xffff_ffff));
        // (c) on a share of the journals produced (the enumeration dominates the cost)
        if let Some((bytes, enc)) = journal {
            let budget_ok = ctx.time_left();
            // quick tier: one enumeration up front per shard, then one in 40, and a fixed number of histories per shard, so that
            // a machine with few cores does the same work as a fast one (just later) instead of spending its whole budget on the enumerations
            let want = if ctx.thorough() { k % 2 == 0 } else { tampered < 1 || k % 40 == 0 };
            let max_len = if ctx.thorough() { 6000 } else { 1500 };
            if budget_ok && want && bytes.len() < max_len {
                tampered += 1;
                if let Err(v) = tamper_journal(&bytes, enc, ctx.thorough(), &mut rng, rep, hseed).await {
                    rep.violation(v);
                }
                if rep.samples.len() < 2 {
                    rep.sample(json!({"journal_len": bytes.len(), "encrypted": enc, "entries": parse_journal(&bytes, !enc).map(|e| e.len()).unwrap_or(0),
                        "mutations": "every truncation length, byte mutations at every position, remove/duplicate/swap of every entry, removal of every prefix"}));
                }
            }
        }
    }
    rep.event_n("journals_tampered", tampered);
    rep.event_n("faults_injected_total", FAULTS_INJECTED.load(Ordering::SeqCst));
    rep.extra.insert("required_events".into(), json!(["direct_concurrent_history", "server_concurrent_history", "append_failures_injected", "journal_fully_enumerated", "tamper_reported",
        "suffix_loss_accepted_as_prefix", "commands_journalled_under_shared_lock"]));
}
