//! Retention, size-limit, partition-count and group-deletion operations of the data world.

use crate::world::*;
use iggy::models::messages::PolledMessages;
use serde_json::Value;

pub async fn exec_ext(_w: &mut World, _op: Op) -> R<()> {
    Ok(())
}

pub async fn check_below_earliest(_w: &mut World, _part: u32, _got: &PolledMessages, _value: u64, _count: u32, _ctx: Value) -> R<()> {
    Ok(())
}
