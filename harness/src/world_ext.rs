//! Retention, size-limit, partition-count and group-deletion operations of the data world
//! (oracle clauses of C14, C15, C16, C17, C07).

use crate::world::*;
use iggy::client::*;
use iggy::compression::compression_algorithm::CompressionAlgorithm;
use iggy::identifier::Identifier;
use iggy::models::messages::PolledMessages;
use iggy::utils::byte_size::IggyByteSize;
use iggy::utils::duration::IggyDuration;
use iggy::utils::expiry::IggyExpiry;
use iggy::utils::timestamp::IggyTimestamp;
use iggy::utils::topic_size::MaxTopicSize;
use serde_json::{json, Value};

fn expiry_of(us: u64) -> IggyExpiry {
    match us {
        0 => IggyExpiry::NeverExpire,
        u64::MAX => IggyExpiry::ServerDefault,
        v => IggyExpiry::ExpireDuration(IggyDuration::from(v)),
    }
}

fn maxsize_of(b: u64) -> MaxTopicSize {
    match b {
        0 => MaxTopicSize::Unlimited,
        u64::MAX => MaxTopicSize::ServerDefault,
        v => MaxTopicSize::Custom(IggyByteSize::from(v)),
    }
}

pub async fn exec_ext(w: &mut World, op: Op) -> R<()> {
    match op {
        Op::Maintain => maintain(w).await,
        Op::UpdateExpiry { us } => update_topic(w, Some(us), None).await,
        Op::UpdateMaxSize { bytes } => update_topic(w, None, Some(bytes)).await,
        Op::CreatePartitions { n } => create_partitions(w, n).await,
        Op::DeletePartitions { n } => delete_partitions(w, n).await,
        Op::DeleteGroup { idx } => delete_group(w, idx).await,
        Op::RestartKey { off } => restart_wrong_key(w, off).await,
        Op::CorruptCiphertext => corrupt_ciphertext(w).await,
        _ => Ok(()),
    }
}

async fn update_topic(w: &mut World, expiry: Option<u64>, max: Option<u64>) -> R<()> {
    let new_exp = expiry.unwrap_or(w.expiry_us);
    let new_max = max.unwrap_or(w.max_size);
    let c = w.client.as_ref().unwrap();
    let r = timed(
        "update_topic",
        c.update_topic(&w.stream, &w.topic, "t1", CompressionAlgorithm::None, None, expiry_of(new_exp), maxsize_of(new_max)),
    )
    .await?;
    // limit validation (C15): 0 < max < segment size must be refused, everything else accepted
    let seg = w.cfg.segment_size;
    let invalid = new_max != 0 && new_max != u64::MAX && new_max < seg;
    w.eval("C15:limit-validation");
    match r {
        Ok(()) => {
            if invalid {
                let wv = json!({"update_topic_max_size": new_max, "segment_size": seg, "result": "accepted"});
                return Err(viol("C15", "limit-validation", "too-small-accepted", w.witness(wv)));
            }
            w.expiry_us = new_exp;
            w.max_size = new_max;
            if expiry.is_some() {
                w.event("expiry_updated");
                w.shape.push("update_expiry");
            }
            if max.is_some() {
                w.event("max_size_updated");
                w.shape.push("update_max");
            }
        }
        Err(e) => {
            if !invalid {
                let wv = json!({"update_topic": {"expiry": new_exp, "max_size": new_max}, "segment_size": seg, "error": e.to_string()});
                return Err(viol("C15", "limit-validation", "valid-update-refused", w.witness(wv)));
            }
            w.event("too_small_limit_refused");
            w.shape.push("update_max_refused");
        }
    }
    // an update changes only what it names
    let t = w.get_topic().await?;
    w.eval("C06:update-changes-only-named");
    let ids: Vec<u32> = w.parts.iter().map(|p| p.id).collect();
    for id in ids {
        let pd = t.partitions.iter().find(|x| x.id == id);
        let cur = w.part(id).unwrap().cur();
        if pd.map(|p| p.current_offset) != Some(cur) {
            let wv = json!({"after_update_topic": "current offset changed", "partition": id});
            return Err(viol("C06", "update-changes-only-named", "data-op", w.witness(wv)));
        }
    }
    Ok(())
}

/// One maintenance pass with the retention / size-limit oracles.
async fn maintain(w: &mut World) -> R<()> {
    // make sure every retained message has a learned timestamp (needed to judge expiry)
    let ids: Vec<u32> = w.parts.iter().map(|p| p.id).collect();
    for id in &ids {
        let unknown = {
            let p = w.part(*id).unwrap();
            p.msgs.iter().skip(p.earliest as usize).any(|r| r.ts.is_none())
        };
        if unknown {
            w.scan_offsets(*id).await?;
        }
    }
    let before = w.get_topic().await?;
    let t0 = IggyTimestamp::now().as_micros();
    let r = timed("maintain", w.inst.as_ref().unwrap().maintain()).await?;
    r.map_err(Stop::Inconclusive)?;
    let t1 = IggyTimestamp::now().as_micros();
    let _ = t0;
    let after = w.get_topic().await?;
    let e = w.effective_expiry();
    let max = w.effective_max_size();
    let size_cleanup_possible = w.cfg.delete_oldest && max != 0;
    w.retention_active = true;
    let mut any_deleted = false;
    for id in ids {
        let (len, old_e) = {
            let p = w.part(id).unwrap();
            (p.msgs.len() as u64, p.earliest)
        };
        let seen = w.scan_offsets(id).await?;
        let f = seen.first().copied().unwrap_or(len);
        // 1. survivors are a contiguous suffix, served as before (content checked by scan_offsets)
        w.eval("C14:survivors-served");
        let exp: Vec<u64> = (f..len).collect();
        if seen != exp || f < old_e {
            let wv = json!({"partition": id, "after_pass_scan": compress(&seen), "expected_suffix_from": f, "previous_earliest": old_e, "len": len});
            let trig = if f < old_e { "resurrected" } else { "not-a-suffix" };
            let cache = if w.cache == crate::inst::CacheMode::Off { "cache_off" } else { "cache_on" };
            return Err(viol("C14", "survivors-served", &format!("{trig}/{cache}"), w.witness(wv)));
        }
        let pb = before.partitions.iter().find(|x| x.id == id);
        let pa = after.partitions.iter().find(|x| x.id == id);
        if f > old_e {
            any_deleted = true;
            w.event("retention_deleted_messages");
            w.shape.push("maintain_deleted");
            if f >= len {
                w.event("retention_deleted_everything");
                w.shape.push("maintain_deleted_all");
            }
            // 2. deleted => expired (unless size-limit clean-up may apply)
            w.eval("C14:deleted-implies-expired");
            // C15: a size-limited, (almost) full topic whose oldest-segment deletion is DISABLED loses messages in a maintenance pass although none
            // of them is expired: that is the size clean-up acting against its configuration
            let almost_full = max != 0 && before.size.as_bytes_u64() * 10 >= max * 9;
            if !w.cfg.delete_oldest && almost_full {
                let unexpired = e == 0 || {
                    let p = w.part(id).unwrap();
                    (old_e..f).any(|off| p.msgs[off as usize].ts.unwrap_or(0) + e > t1)
                };
                if unexpired {
                    w.eval("C15:nothing-without-delete-oldest");
                    let wv = json!({"partition": id, "deleted": format!("[{old_e}..{}]", f - 1), "topic_size_before": before.size.as_bytes_u64(), "limit": max, "delete_oldest_segments": false,
                        "expiry_us": e});
                    return Err(viol("C15", "nothing-without-delete-oldest", "maintenance-deleted-oldest-segment", w.witness(wv)));
                }
            }
            if !size_cleanup_possible {
                if e == 0 {
                    let wv = json!({"partition": id, "deleted": format!("[{old_e}..{}]", f - 1), "expiry": "never"});
                    return Err(viol("C14", "deleted-implies-expired", "never-expiring-topic-lost-messages", w.witness(wv)));
                }
                let p = w.part(id).unwrap();
                for off in old_e..f {
                    let ts = p.msgs[off as usize].ts.unwrap_or(0);
                    if ts + e > t1 {
                        let wv = json!({"partition": id, "deleted_offset": off, "timestamp": ts, "expiry_us": e, "pass_time_upper": t1,
                            "deleted": format!("[{old_e}..{}]", f - 1), "newest_deleted": f >= len});
                        return Err(viol("C14", "deleted-implies-expired", "unexpired-deleted", w.witness(wv)));
                    }
                }
            } else {
                // C15: size-limit clean-up: at most the oldest closed segment per partition, never the newest data
                w.eval("C15:cleanup-oldest-only");
                if let (Some(pb), Some(pa)) = (pb, pa) {
                    if pb.segments_count > pa.segments_count + 1 {
                        let wv = json!({"partition": id, "segments_before": pb.segments_count, "segments_after": pa.segments_count});
                        return Err(viol("C15", "cleanup-oldest-only", "more-than-one-segment", w.witness(wv)));
                    }
                }
                if f >= len && e == 0 {
                    let wv = json!({"partition": id, "deleted": format!("[{old_e}..{}]", f - 1), "newest_offset": len - 1});
                    return Err(viol("C15", "cleanup-oldest-only", "newest-data-deleted", w.witness(wv)));
                }
                w.event("size_cleanup_deleted");
            }
        } else {
            w.shape.push("maintain_noop");
        }
        if !w.cfg.delete_oldest && e == 0 {
            w.eval("C15:nothing-without-delete-oldest");
        }
        w.part_mut(id).earliest = f;
    }
    if any_deleted {
        w.event("maintain_pass_deleted");
    }
    w.event("maintain_pass");
    // 3. current offsets unchanged, counters consistent
    w.checkpoint("after-maintain").await
}

/// C14's lenient rule for reads that start below the earliest retained offset.
pub async fn check_below_earliest(w: &mut World, part: u32, got: &PolledMessages, value: u64, count: u32, ctx: Value) -> R<()> {
    let (e, cur, len) = {
        let p = w.part(part).unwrap();
        (p.earliest, p.cur(), p.msgs.len() as u64)
    };
    w.eval("C14:below-earliest");
    w.event("poll_below_earliest");
    let offs: Vec<u64> = got.messages.iter().map(|m| m.offset).collect();
    for m in &got.messages {
        w.check_message(part, m, &ctx)?;
    }
    let reaches = value.saturating_add(count as u64 - 1) >= e;
    let have = len > e;
    if offs.is_empty() {
        let is_next = ctx["poll"].as_str() == Some("Next");
        if have && (reaches || is_next) {
            let wv = json!({"ctx": ctx, "partition": part, "earliest_retained": e, "current_offset": cur, "got": "[]"});
            let trig = if is_next { "next-starves" } else { "empty-though-window-reaches-retained" };
            return Err(viol("C14", "below-earliest", trig, w.witness(wv)));
        }
        return Ok(());
    }
    let contiguous = offs.windows(2).all(|x| x[1] == x[0] + 1);
    let maxlen = (count as u64).min(cur - e + 1);
    if offs[0] != e || !contiguous || offs.len() as u64 > maxlen {
        let wv = json!({"ctx": ctx, "partition": part, "earliest_retained": e, "got": compress(&offs), "max_len": maxlen});
        return Err(viol("C14", "below-earliest", "does-not-start-at-earliest", w.witness(wv)));
    }
    Ok(())
}

async fn create_partitions(w: &mut World, n: u32) -> R<()> {
    if w.parts.len() as u32 + n > 6 {
        return Ok(());
    }
    let c = w.client.as_ref().unwrap();
    let r = timed("create_partitions", c.create_partitions(&w.stream, &w.topic, n)).await?;
    if let Err(e) = r {
        let wv = json!({"create_partitions": n, "error": e.to_string()});
        return Err(viol("C06", "valid-refused", "create_partitions", w.witness(wv)));
    }
    let base = w.parts.len() as u32;
    for i in 1..=n {
        w.parts.push(PartM { id: base + i, ..Default::default() });
    }
    w.rr_next = None;
    w.event("partitions_created");
    w.shape.push("create_partitions");
    w.checkpoint("after-create-partitions").await
}

async fn delete_partitions(w: &mut World, n: u32) -> R<()> {
    let n = n.min(w.parts.len() as u32 - 1);
    if n == 0 {
        return Ok(());
    }
    let c = w.client.as_ref().unwrap();
    let r = timed("delete_partitions", c.delete_partitions(&w.stream, &w.topic, n)).await?;
    if let Err(e) = r {
        let wv = json!({"delete_partitions": n, "error": e.to_string()});
        return Err(viol("C06", "valid-refused", "delete_partitions", w.witness(wv)));
    }
    let had_msgs = w.parts.iter().rev().take(n as usize).any(|p| !p.msgs.is_empty());
    for _ in 0..n {
        w.parts.pop();
    }
    w.rr_next = None;
    w.event("partitions_deleted");
    if had_msgs {
        w.event("nonempty_partition_deleted");
    }
    w.shape.push("delete_partitions");
    w.checkpoint("after-delete-partitions").await
}

async fn delete_group(w: &mut World, idx: u8) -> R<()> {
    if !w.groups_alive[idx as usize] {
        return Ok(());
    }
    let gid = GROUPS[idx as usize].0;
    let c = w.client.as_ref().unwrap();
    let r = timed("delete_group", c.delete_consumer_group(&w.stream, &w.topic, &Identifier::numeric(gid).unwrap())).await?;
    if let Err(e) = r {
        let wv = json!({"delete_group": gid, "error": e.to_string()});
        return Err(viol("C06", "valid-refused", "delete_consumer_group", w.witness(wv)));
    }
    w.groups_alive[idx as usize] = false;
    w.event("group_deleted");
    w.shape.push("delete_group");
    // stored offsets vanish with the group: re-create it under the same id and look
    let c = w.client.as_ref().unwrap();
    let r = timed("create_group", c.create_consumer_group(&w.stream, &w.topic, GROUPS[idx as usize].1, Some(gid))).await?;
    if let Err(e) = r {
        let wv = json!({"recreate_group": gid, "error": e.to_string()});
        return Err(viol("C06", "valid-refused", "create_consumer_group", w.witness(wv)));
    }
    w.groups_alive[idx as usize] = true;
    for p in w.parts.iter_mut() {
        p.offs.remove(&Ident::G(gid));
    }
    w.eval("C07:vanish-with-group");
    w.verify_all_offsets("after-group-delete").await
}


/// C19: restart with another key (or with encryption switched off) must fail or refuse reads; it must never
/// deliver the data as valid content and never panic. Afterwards the right key restores everything.
async fn restart_wrong_key(w: &mut World, off: bool) -> R<()> {
    use crate::inst::{ServerInstance, StartError, ENC_KEY_B};
    if !w.cfg.encryption {
        return Ok(());
    }
    w.checkpoint("before-restart").await?;
    w.client = None;
    w.last_stop = "shutdown";
    let inst = w.inst.take().unwrap();
    timed("stop", inst.stop(true)).await?.map_err(Stop::Inconclusive)?;
    let mut bad = w.cfg.clone();
    if off {
        bad.encryption = false;
    } else {
        bad.enc_key = ENC_KEY_B.to_string();
    }
    let label = if off { "encryption-off" } else { "other-key" };
    w.eval("C19:wrong-key");
    match timed("start", ServerInstance::start(&w.dir, &bad, w.cache)).await? {
        Err(StartError::Init(_)) => {
            w.event(&format!("wrong_key_start_refused_{label}"));
        }
        Err(StartError::Panic(m)) => {
            let wv = json!({"restart_with": label, "panic": m});
            return Err(viol("C19", "wrong-key", &format!("start-panic/{label}"), w.witness(wv)));
        }
        Err(StartError::Harness(e)) => return Err(Stop::Inconclusive(e)),
        Ok(inst2) => {
            // started: every read must be refused or at least never return the original plaintext
            w.event(&format!("wrong_key_started_{label}"));
            let client = crate::raw::RawClient::connect(inst2.tcp_addr).await.map_err(Stop::Inconclusive)?;
            let login = timed("login", client.login_user("iggy", "iggy")).await?;
            if login.is_ok() && !off {
                let ids: Vec<u32> = w.parts.iter().map(|p| p.id).collect();
                for id in ids {
                    let who = iggy::consumer::Consumer::new(Identifier::numeric(9998).unwrap());
                    let r = timed("poll", client.poll_messages(&w.stream, &w.topic, Some(id), &who, &iggy::messages::poll_messages::PollingStrategy::first(), 10, false)).await?;
                    if let Ok(pm) = r {
                        if !pm.messages.is_empty() {
                            let wv = json!({"restart_with": label, "partition": id, "delivered": pm.messages.len()});
                            return Err(viol("C19", "wrong-key", "delivered-under-other-key", w.witness(wv)));
                        }
                    }
                }
            }
            drop(client);
            let _ = timed("stop", inst2.stop(false)).await?;
        }
    }
    let panics = crate::inst::take_server_panics();
    if !panics.is_empty() {
        let wv = json!({"restart_with": label, "panics": panics});
        return Err(viol("C19", "wrong-key", &format!("panic/{label}"), w.witness(wv)));
    }
    // encryption enabled with a key that cannot be used (empty, wrong length, not base64), on a fresh data directory:
    // the server either refuses to start or, if it runs, must not write anything in clear
    if w.restarts % 3 == 0 {
        let bad_key = ["", "00112233445566778899aabbccddeeff00112233445566778899aabbccddeeff", "c2hvcnQ=", "not base64 at all !!"][(w.hist % 4) as usize];
        let probe_dir = w.dir.with_extension("unusable-key");
        let _ = std::fs::remove_dir_all(&probe_dir);
        let mut cfg2 = w.cfg.clone();
        cfg2.encryption = true;
        cfg2.enc_key = bad_key.to_string();
        w.eval("C19:no-cleartext");
        match timed("start", ServerInstance::start(&probe_dir, &cfg2, w.cache)).await? {
            Err(StartError::Init(_)) | Err(StartError::Panic(_)) => {
                let _ = crate::inst::take_server_panics();
                w.event("unusable_key_start_refused");
            }
            Err(StartError::Harness(e)) => return Err(Stop::Inconclusive(e)),
            Ok(inst3) => {
                w.event("unusable_key_server_started");
                let marker = format!("PROBE-CLEAR-{:016x}-payload", w.hist);
                let sname = format!("probe-stream-{:08x}", w.hist & 0xffff_ffff);
                let client = crate::raw::RawClient::connect(inst3.tcp_addr).await.map_err(Stop::Inconclusive)?;
                let one = Identifier::numeric(1).unwrap();
                let mut wrote = false;
                if timed("login", client.login_user("iggy", "iggy")).await?.is_ok()
                    && timed("create_stream", client.create_stream(&sname, Some(1))).await?.is_ok()
                    && timed("create_topic", client.create_topic(&one, "probe-topic", 1, CompressionAlgorithm::None, None, Some(1), IggyExpiry::NeverExpire, MaxTopicSize::Unlimited)).await?.is_ok()
                {
                    let mut m = vec![iggy::messages::send_messages::Message::new(Some(1), bytes::Bytes::from(marker.clone()), None)];
                    wrote = timed("send", client.send_messages(&one, &one, &iggy::messages::send_messages::Partitioning::partition_id(1), &mut m)).await?.is_ok();
                }
                drop(client);
                let _ = timed("stop", inst3.stop(true)).await?;
                let mut files = vec![];
                crate::world::collect_files(&probe_dir, &mut files);
                for f in &files {
                    let Ok(data) = std::fs::read(f) else { continue };
                    for mk in [marker.as_bytes(), sname.as_bytes()] {
                        if crate::world::find(&data, mk).is_some() {
                            let wv = json!({"encryption_enabled_with_key": bad_key, "server": "started", "message_sent": wrote, "clear_text_found_in": f.to_string_lossy(), "marker": String::from_utf8_lossy(mk)});
                            let _ = std::fs::remove_dir_all(&probe_dir);
                            return Err(viol("C19", "no-cleartext", "unusable-key-accepted", w.witness(wv)));
                        }
                    }
                }
            }
        }
        let _ = std::fs::remove_dir_all(&probe_dir);
    }
    // the right key restores everything
    w.start_instance().await?;
    w.restarts += 1;
    for p in w.parts.iter_mut() {
        p.persisted = p.msgs.len() as u64;
        p.unsaved = 0;
        p.restarted = true;
        p.first_after_restart = None;
    }
    w.rr_next = None;
    w.shape.push(if off { "restart_enc_off" } else { "restart_other_key" });
    w.checkpoint("after-restart").await
}

/// C19: a flipped byte in a stored ciphertext must surface as an error for the affected poll.
async fn corrupt_ciphertext(w: &mut World) -> R<()> {
    if !w.cfg.encryption {
        return Ok(());
    }
    let Some(part) = w.parts.iter().find(|p| !p.msgs.is_empty() && p.earliest == 0).map(|p| p.id) else { return Ok(()) };
    w.checkpoint("before-restart").await?;
    w.client = None;
    let inst = w.inst.take().unwrap();
    timed("stop", inst.stop(true)).await?.map_err(Stop::Inconclusive)?;
    // newest non-empty log file of the partition; flip one byte in the tail of its last message (GCM tag)
    let pdir = w.dir.join(format!("streams/{SID}/topics/{TID}/partitions/{part}"));
    let mut logs: Vec<(u64, std::path::PathBuf)> = vec![];
    if let Ok(rd) = std::fs::read_dir(&pdir) {
        for e in rd.flatten() {
            let p = e.path();
            if p.extension().map(|x| x == "log").unwrap_or(false) {
                if let Some(start) = p.file_stem().and_then(|s| s.to_str()).and_then(|s| s.parse::<u64>().ok()) {
                    if std::fs::metadata(&p).map(|m| m.len() > 40).unwrap_or(false) {
                        logs.push((start, p));
                    }
                }
            }
        }
    }
    logs.sort();
    let Some((_, path)) = logs.last().cloned() else {
        w.start_instance().await?;
        return Ok(());
    };
    let mut data = std::fs::read(&path).map_err(|e| Stop::Inconclusive(e.to_string()))?;
    let n = data.len();
    data[n - 3] ^= 0x41;
    std::fs::write(&path, &data).map_err(|e| Stop::Inconclusive(e.to_string()))?;
    w.start_instance().await?;
    let last = w.part(part).unwrap().cur();
    let who = iggy::consumer::Consumer::new(Identifier::numeric(9998).unwrap());
    let r = w.raw_poll(part, &iggy::messages::poll_messages::PollingStrategy::offset(last), 1, &who, false).await?;
    w.eval("C19:corrupt-ciphertext-reported");
    w.event("ciphertext_corrupted");
    w.shape.push("corrupt_ciphertext");
    let panics = crate::inst::take_server_panics();
    if !panics.is_empty() {
        let wv = json!({"corrupted_file": path.to_string_lossy(), "panics": panics});
        return Err(viol("C19", "corrupt-ciphertext-reported", "panic", w.witness(wv)));
    }
    if let Ok(pm) = r {
        if pm.messages.iter().any(|m| m.offset == last) {
            let wv = json!({"corrupted_file": path.to_string_lossy(), "partition": part, "offset": last, "result": "delivered"});
            return Err(viol("C19", "corrupt-ciphertext-reported", "delivered", w.witness(wv)));
        }
    }
    // the data directory is now corrupt by construction: end the history here
    Err(Stop::Inconclusive("end-after-corruption".into()))
}
