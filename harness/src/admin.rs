//! The admin world: catalogue commands (streams, topics, partitions, consumer groups, users,
//! permissions, tokens) issued over TCP and HTTP against a sequential reference catalogue.
//! Oracles of C06 (sequential map, refused commands change nothing, cascades, no panic) and
//! C05 (restart reproduces the acknowledged catalogue).

use crate::inst::{take_server_panics, CacheMode, ServerInstance, StartError, StorageCfg};
use crate::raw::RawClient;
use crate::rng::Rng;
use crate::world::{timed, viol, Stop, R};
use bytes::Bytes;
use iggy::client::*;
use iggy::compression::compression_algorithm::CompressionAlgorithm;
use iggy::consumer::Consumer;
use iggy::error::IggyError;
use iggy::http::client::HttpClient;
use iggy::http::config::HttpClientConfig;
use iggy::identifier::Identifier;
use iggy::messages::poll_messages::PollingStrategy;
use iggy::messages::send_messages::{Message, Partitioning};
use iggy::models::permissions::{GlobalPermissions, Permissions, StreamPermissions};
use iggy::models::user_status::UserStatus;
use iggy::utils::byte_size::IggyByteSize;
use iggy::utils::duration::IggyDuration;
use iggy::utils::expiry::IggyExpiry;
use iggy::utils::personal_access_token_expiry::PersonalAccessTokenExpiry;
use iggy::utils::topic_size::MaxTopicSize;
use serde::{Deserialize, Serialize};
use serde_json::{json, Value};
use std::collections::{BTreeMap, BTreeSet};
use std::path::PathBuf;
use std::sync::Arc;
use std::time::Duration;

// boundary lengths included: 1, 2 and 255 characters (the decoders refused 1-2 character names before 8d48925)
pub const STREAM_NAMES: [&str; 8] = ["str-a", "strb", "s-c", "s_d", "se9", "stream-f", "x", "sabcdefghij-0123456789_klmnopqrstuvwxyzabcdefghij-0123456789_klmnopqrstuvwxyzabcdefghij-0123456789_klmnopqrstuvwxyzabcdefghij-0123456789_klmnopqrstuvwxyzabcdefghij-0123456789_klmnopqrstuvwxyzabcdefghij-0123456789_klmnopqrstuvwxyzabcdefghij-0123456789_klmn"];
pub const TOPIC_NAMES: [&str; 8] = ["top-a", "topb", "t-c", "t_d", "te9", "topic-f", "y2", "tabcdefghij-0123456789_klmnopqrstuvwxyzabcdefghij-0123456789_klmnopqrstuvwxyzabcdefghij-0123456789_klmnopqrstuvwxyzabcdefghij-0123456789_klmnopqrstuvwxyzabcdefghij-0123456789_klmnopqrstuvwxyzabcdefghij-0123456789_klmnopqrstuvwxyzabcdefghij-0123456789_klmn"];
pub const GROUP_NAMES: [&str; 7] = ["grp-a", "grpb", "g-c", "g_d", "ge9", "g", "gabcdefghij-0123456789_klmnopqrstuvwxyzabcdefghij-0123456789_klmnopqrstuvwxyzabcdefghij-0123456789_klmnopqrstuvwxyzabcdefghij-0123456789_klmnopqrstuvwxyzabcdefghij-0123456789_klmnopqrstuvwxyzabcdefghij-0123456789_klmnopqrstuvwxyzabcdefghij-0123456789_klmn"];
pub const USER_NAMES: [&str; 5] = ["ulla", "uwe", "u-mo", "u_na", "ute9"];
pub const TOKEN_NAMES: [&str; 4] = ["tok-a", "tok-b", "tok_c", "tokd"];
pub const N_CLIENTS: usize = 3;

/// how an entity is addressed
#[derive(Clone, Debug, Serialize, Deserialize)]
pub enum Ref {
    Id(u32),
    Name(String),
}

impl Ref {
    pub fn ident(&self) -> Identifier {
        match self {
            Ref::Id(i) => Identifier::numeric((*i).max(1)).unwrap(),
            Ref::Name(n) => Identifier::named(n).unwrap(),
        }
    }
}

#[derive(Clone, Debug, Serialize, Deserialize)]
pub enum AOp {
    CreateStream { name: String, id: Option<u32> },
    UpdateStream { s: Ref, name: String },
    DeleteStream { s: Ref },
    PurgeStream { s: Ref },
    CreateTopic { s: Ref, name: String, id: Option<u32>, partitions: u32, expiry: u64, max: u64, replication: Option<u8> },
    UpdateTopic { s: Ref, t: Ref, name: String, expiry: u64, max: u64, replication: Option<u8> },
    DeleteTopic { s: Ref, t: Ref },
    PurgeTopic { s: Ref, t: Ref },
    CreatePartitions { s: Ref, t: Ref, n: u32 },
    DeletePartitions { s: Ref, t: Ref, n: u32 },
    CreateGroup { s: Ref, t: Ref, name: String, id: Option<u32> },
    DeleteGroup { s: Ref, t: Ref, g: Ref },
    Join { s: Ref, t: Ref, g: Ref, client: usize },
    Leave { s: Ref, t: Ref, g: Ref, client: usize },
    CreateUser { name: String, active: bool, perms: u8 },
    UpdateUser { u: Ref, name: Option<String>, active: Option<bool> },
    DeleteUser { u: Ref },
    UpdatePermissions { u: Ref, perms: u8 },
    ChangePassword { u: Ref, correct: bool },
    CreateToken { name: String, expiry_s: u64 },
    DeleteToken { name: String },
    Send { s: Ref, t: Ref, part: u32, n: u32 },
    Restart,
    Dump,
    /// login attempt with a candidate password: 0 current, 1 wrong, 2 a previous one, 3 another user's
    TryLogin { name: String, cand: u8, http: bool },
    /// token of any user ever created in this history (alive, deleted, expired, of a deleted/inactive user)
    TryToken { idx: usize },
    UserToken { u: Ref, name: String, expiry_s: u64 },
    DeleteUserToken { u: Ref, name: String },
    LogoutCheck,
    HttpAuthCheck,
    AdvanceClock { s: u64 },
    CleanTokens,
    ScanSecrets,
}

impl AOp {
    pub fn kind(&self) -> &'static str {
        match self {
            AOp::CreateStream { .. } => "create_stream",
            AOp::UpdateStream { .. } => "update_stream",
            AOp::DeleteStream { .. } => "delete_stream",
            AOp::PurgeStream { .. } => "purge_stream",
            AOp::CreateTopic { .. } => "create_topic",
            AOp::UpdateTopic { .. } => "update_topic",
            AOp::DeleteTopic { .. } => "delete_topic",
            AOp::PurgeTopic { .. } => "purge_topic",
            AOp::CreatePartitions { .. } => "create_partitions",
            AOp::DeletePartitions { .. } => "delete_partitions",
            AOp::CreateGroup { .. } => "create_group",
            AOp::DeleteGroup { .. } => "delete_group",
            AOp::Join { .. } => "join_group",
            AOp::Leave { .. } => "leave_group",
            AOp::CreateUser { .. } => "create_user",
            AOp::UpdateUser { .. } => "update_user",
            AOp::DeleteUser { .. } => "delete_user",
            AOp::UpdatePermissions { .. } => "update_permissions",
            AOp::ChangePassword { .. } => "change_password",
            AOp::CreateToken { .. } => "create_token",
            AOp::DeleteToken { .. } => "delete_token",
            AOp::Send { .. } => "send",
            AOp::Restart => "restart",
            AOp::Dump => "dump",
            AOp::TryLogin { .. } => "try_login",
            AOp::TryToken { .. } => "try_token",
            AOp::UserToken { .. } => "create_user_token",
            AOp::DeleteUserToken { .. } => "delete_user_token",
            AOp::LogoutCheck => "logout_check",
            AOp::HttpAuthCheck => "http_auth_check",
            AOp::AdvanceClock { .. } => "advance_clock",
            AOp::CleanTokens => "clean_tokens",
            AOp::ScanSecrets => "scan_secrets",
        }
    }
}

#[derive(Clone, Debug, Default)]
pub struct MGroup {
    pub id: u32,
    pub name: String,
    pub members: BTreeSet<usize>,
}

#[derive(Clone, Debug, Default)]
pub struct MTopic {
    pub id: u32,
    pub name: String,
    /// messages per partition (payload tags)
    pub parts: Vec<Vec<Bytes>>,
    pub expiry: u64,
    pub max: u64,
    pub replication: u8,
    pub groups: BTreeMap<u32, MGroup>,
}

#[derive(Clone, Debug, Default)]
pub struct MStream {
    pub id: u32,
    pub name: String,
    pub topics: BTreeMap<u32, MTopic>,
}

#[derive(Clone, Debug)]
pub struct MUser {
    pub id: u32,
    pub name: String,
    pub active: bool,
    pub perms: u8,
    pub password: String,
    pub previous: Vec<String>,
}

/// every personal access token ever created in the history
#[derive(Clone, Debug)]
pub struct TokRec {
    pub owner: u32,
    pub name: String,
    pub raw: String,
    /// server clock (micros) bracket at creation
    pub created_us: u64,
    pub expiry_s: u64,
    pub deleted: bool,
}

#[derive(Clone, Debug, Default)]
pub struct Model {
    pub streams: BTreeMap<u32, MStream>,
    pub users: BTreeMap<u32, MUser>,
    /// root's tokens: name -> (raw token, expiry seconds 0 = never)
    pub tokens: BTreeMap<String, (String, u64)>,
    pub toks: Vec<TokRec>,
    pub secrets: Vec<String>,
}

pub fn perms_of(code: u8) -> Option<Permissions> {
    match code {
        0 => None,
        1 => Some(Permissions { global: GlobalPermissions::default(), streams: None }),
        2 => Some(Permissions {
            global: GlobalPermissions { manage_servers: true, read_servers: true, manage_users: true, read_users: true, manage_streams: true, read_streams: true, manage_topics: true, read_topics: true, poll_messages: true, send_messages: true },
            streams: None,
        }),
        3 => {
            let mut streams = ahash::AHashMap::new();
            let mut topics = ahash::AHashMap::new();
            topics.insert(1u32, iggy::models::permissions::TopicPermissions { manage_topic: true, read_topic: false, poll_messages: true, send_messages: false });
            streams.insert(1u32, StreamPermissions { manage_stream: false, read_stream: true, manage_topics: false, read_topics: true, poll_messages: true, send_messages: false, topics: Some(topics) });
            streams.insert(3u32, StreamPermissions { manage_stream: true, read_stream: true, manage_topics: true, read_topics: true, poll_messages: false, send_messages: true, topics: None });
            Some(Permissions { global: GlobalPermissions { read_streams: true, ..Default::default() }, streams: Some(streams) })
        }
        _ => Some(Permissions { global: GlobalPermissions { read_users: true, read_topics: true, poll_messages: true, ..Default::default() }, streams: None }),
    }
}

pub struct AdminWorld {
    pub hist: u64,
    pub cfg: StorageCfg,
    pub cache: CacheMode,
    pub dir: PathBuf,
    pub inst: Option<ServerInstance>,
    pub tcp: Vec<RawClient>,
    pub client_ids: Vec<u32>,
    pub http: Option<HttpClient>,
    pub m: Model,
    pub ops: Vec<(AOp, bool)>,
    pub ev: BTreeMap<String, u64>,
    pub evals: BTreeMap<String, u64>,
    pub opsk: BTreeMap<String, u64>,
    pub shape: Vec<&'static str>,
    pub seq: u64,
    pub restarts: u32,
    /// property that owns restart-related clauses in this run
    pub with_http: bool,
}

fn expiry_of(us: u64) -> IggyExpiry {
    match us {
        0 => IggyExpiry::NeverExpire,
        u64::MAX => IggyExpiry::ServerDefault,
        v => IggyExpiry::ExpireDuration(IggyDuration::from(v)),
    }
}
fn maxsize_of(b: u64) -> MaxTopicSize {
    match b {
        0 => MaxTopicSize::Unlimited,
        u64::MAX => MaxTopicSize::ServerDefault,
        v => MaxTopicSize::Custom(IggyByteSize::from(v)),
    }
}

impl AdminWorld {
    pub fn new(hist: u64, cfg: StorageCfg, cache: CacheMode, dir: PathBuf) -> AdminWorld {
        let mut m = Model::default();
        m.users.insert(1, MUser { id: 1, name: "iggy".into(), active: true, perms: 255, password: "iggy".into(), previous: vec![] });
        AdminWorld {
            hist,
            with_http: cfg.http,
            cfg,
            cache,
            dir,
            inst: None,
            tcp: vec![],
            client_ids: vec![],
            http: None,
            m,
            ops: vec![],
            ev: BTreeMap::new(),
            evals: BTreeMap::new(),
            opsk: BTreeMap::new(),
            shape: vec![],
            seq: 0,
            restarts: 0,
        }
    }
    pub fn event(&mut self, n: &str) {
        *self.ev.entry(n.to_string()).or_insert(0) += 1;
    }
    pub fn eval(&mut self, n: &str) {
        *self.evals.entry(n.to_string()).or_insert(0) += 1;
    }
    pub fn witness(&self, detail: Value) -> Value {
        json!({
            "history": self.hist,
            "process_cfg": self.cache.name(),
            "storage_cfg": self.cfg,
            "ops": self.ops.iter().map(|(o, http)| json!({"op": o, "http": http})).collect::<Vec<_>>(),
            "first_bad": {"i": self.ops.len().saturating_sub(1), "detail": detail},
            "server_panics": take_server_panics(),
        })
    }

    pub async fn start(&mut self) -> R<()> {
        let started = timed("start", ServerInstance::start(&self.dir, &self.cfg, self.cache)).await?;
        let inst = match started {
            Ok(i) => i,
            Err(StartError::Harness(e)) => return Err(Stop::Inconclusive(e)),
            Err(StartError::Init(e)) => return Err(viol("C05", "restart-starts", "init-error", self.witness(json!({"init_error": e})))),
            Err(StartError::Panic(e)) => return Err(viol("C05", "restart-starts", "init-panic", self.witness(json!({"init_panic": e})))),
        };
        self.tcp.clear();
        self.client_ids.clear();
        for _ in 0..N_CLIENTS {
            let c = RawClient::connect(inst.tcp_addr).await.map_err(Stop::Inconclusive)?;
            let root_pw = self.m.users[&1].password.clone();
            timed("login", c.login_user("iggy", &root_pw)).await?.map_err(|e| Stop::Inconclusive(format!("login: {e}")))?;
            let me = timed("get_me", c.get_me()).await?.map_err(|e| Stop::Inconclusive(format!("get_me: {e}")))?;
            self.client_ids.push(me.client_id);
            self.tcp.push(c);
        }
        if let Some(addr) = inst.http_addr {
            let h = HttpClient::create(Arc::new(HttpClientConfig { api_url: format!("http://{addr}"), retries: 0 })).map_err(|e| Stop::Inconclusive(format!("http: {e}")))?;
            let root_pw = self.m.users[&1].password.clone();
            timed("http login", h.login_user("iggy", &root_pw)).await?.map_err(|e| Stop::Inconclusive(format!("http login: {e}")))?;
            self.http = Some(h);
        }
        self.inst = Some(inst);
        // memberships do not survive a restart (connections are new)
        for s in self.m.streams.values_mut() {
            for t in s.topics.values_mut() {
                for g in t.groups.values_mut() {
                    g.members.clear();
                }
            }
        }
        Ok(())
    }

    pub async fn teardown(&mut self) {
        self.tcp.clear();
        self.http = None;
        if let Some(inst) = self.inst.take() {
            let _ = tokio::time::timeout(Duration::from_secs(30), inst.stop(false)).await;
        }
        let _ = std::fs::remove_dir_all(&self.dir);
    }

    fn cl(&self, http: bool) -> &dyn Client {
        if http {
            if let Some(h) = &self.http {
                return h;
            }
        }
        &self.tcp[0]
    }

    // ------------------------------------------------------------------ model look-ups
    fn stream_id(&self, r: &Ref) -> Option<u32> {
        match r {
            Ref::Id(i) => self.m.streams.get(i).map(|s| s.id),
            Ref::Name(n) => self.m.streams.values().find(|s| &s.name == n).map(|s| s.id),
        }
    }
    fn topic_id(&self, sid: u32, r: &Ref) -> Option<u32> {
        let s = self.m.streams.get(&sid)?;
        match r {
            Ref::Id(i) => s.topics.get(i).map(|t| t.id),
            Ref::Name(n) => s.topics.values().find(|t| &t.name == n).map(|t| t.id),
        }
    }
    fn group_id(&self, sid: u32, tid: u32, r: &Ref) -> Option<u32> {
        let t = self.m.streams.get(&sid)?.topics.get(&tid)?;
        match r {
            Ref::Id(i) => t.groups.get(i).map(|g| g.id),
            Ref::Name(n) => t.groups.values().find(|g| &g.name == n).map(|g| g.id),
        }
    }
    fn user_id(&self, r: &Ref) -> Option<u32> {
        match r {
            Ref::Id(i) => self.m.users.get(i).map(|u| u.id),
            Ref::Name(n) => self.m.users.values().find(|u| &u.name == n).map(|u| u.id),
        }
    }

    /// Checks the outcome of a command against the model's verdict.
    fn outcome<T>(&mut self, what: &str, expect_ok: bool, res: &Result<T, IggyError>, why: &str) -> R<()> {
        self.eval("C06:outcome");
        match (expect_ok, res) {
            (true, Err(e)) => {
                let w = json!({"command": what, "model": "valid", "server": format!("refused: {e}"), "why_valid": why});
                Err(viol("C06", "valid-refused", what, self.witness(w)))
            }
            (false, Ok(_)) => {
                let w = json!({"command": what, "model": format!("invalid: {why}"), "server": "accepted"});
                Err(viol("C06", "invalid-accepted", what, self.witness(w)))
            }
            (false, Err(_)) => {
                self.event("refused_command");
                Ok(())
            }
            _ => Ok(()),
        }
    }

    pub async fn exec(&mut self, op: AOp, http: bool) -> R<()> {
        let http = http && self.http.is_some();
        self.ops.push((op.clone(), http));
        *self.opsk.entry(format!("{}{}", op.kind(), if http { "@http" } else { "" })).or_insert(0) += 1;
        let refused_before = self.ev.get("refused_command").copied().unwrap_or(0);
        let r = self.exec_inner(op.clone(), http).await;
        let panics = take_server_panics();
        if !panics.is_empty() {
            let w = json!({"panics": panics, "after": format!("{:?}", op)});
            return Err(viol("C06", "no-panic", op.kind(), self.witness(w)));
        }
        r?;
        let refused = self.ev.get("refused_command").copied().unwrap_or(0) > refused_before;
        if refused {
            self.shape.push("refused");
            // a refused command changes nothing: full dump against the (unchanged) model
            self.dump_and_compare("after-refused-command", false).await?;
        }
        Ok(())
    }

    async fn exec_inner(&mut self, op: AOp, http: bool) -> R<()> {
        match op {
            AOp::CreateStream { name, id } => {
                let name_taken = self.m.streams.values().any(|s| s.name == name);
                let id_taken = id.map(|i| self.m.streams.contains_key(&i)).unwrap_or(false);
                let ok = !name_taken && !id_taken;
                let res = timed("create_stream", self.cl(http).create_stream(&name, id)).await?;
                self.outcome("create_stream", ok, &res, "fresh name and id")?;
                if let Ok(sd) = res {
                    self.eval("C06:assigned-id-fresh");
                    if self.m.streams.contains_key(&sd.id) || id.map(|i| i != sd.id).unwrap_or(false) || sd.id == 0 {
                        let w = json!({"create_stream": name, "requested_id": id, "returned_id": sd.id, "ids_in_use": self.m.streams.keys().collect::<Vec<_>>()});
                        return Err(viol("C06", "assigned-id-fresh", "stream", self.witness(w)));
                    }
                    if id.is_none() {
                        self.event("server_assigned_id");
                        if !self.m.streams.is_empty() || self.ev.contains_key("entity_deleted") {
                            self.shape.push("auto_id_after_history");
                        }
                    }
                    self.m.streams.insert(sd.id, MStream { id: sd.id, name, topics: BTreeMap::new() });
                    self.shape.push("create_stream");
                }
                Ok(())
            }
            AOp::UpdateStream { s, name } => {
                let sid = self.stream_id(&s);
                let taken = self.m.streams.values().any(|x| x.name == name && Some(x.id) != sid);
                let ok = sid.is_some() && !taken;
                let res = timed("update_stream", self.cl(http).update_stream(&s.ident(), &name)).await?;
                self.outcome("update_stream", ok, &res, "existing stream, name free or its own")?;
                if res.is_ok() {
                    let by_name = matches!(s, Ref::Name(_));
                    self.m.streams.get_mut(&sid.unwrap()).unwrap().name = name;
                    self.event(if by_name { "rename_by_name" } else { "rename_by_id" });
                    self.shape.push("rename_stream");
                }
                Ok(())
            }
            AOp::DeleteStream { s } => {
                let sid = self.stream_id(&s);
                let res = timed("delete_stream", self.cl(http).delete_stream(&s.ident())).await?;
                self.outcome("delete_stream", sid.is_some(), &res, "existing stream")?;
                if res.is_ok() {
                    let st = self.m.streams.remove(&sid.unwrap()).unwrap();
                    if st.topics.values().any(|t| t.groups.values().any(|g| !g.members.is_empty())) {
                        self.event("deleted_with_memberships");
                        self.shape.push("delete_with_members");
                    }
                    self.event("entity_deleted");
                    self.shape.push("delete_stream");
                    self.check_dirs("after-delete-stream")?;
                    self.check_clients("after-delete-stream").await?;
                }
                Ok(())
            }
            AOp::PurgeStream { s } => {
                let sid = self.stream_id(&s);
                let res = timed("purge_stream", self.cl(http).purge_stream(&s.ident())).await?;
                self.outcome("purge_stream", sid.is_some(), &res, "existing stream")?;
                if res.is_ok() {
                    for t in self.m.streams.get_mut(&sid.unwrap()).unwrap().topics.values_mut() {
                        for p in t.parts.iter_mut() {
                            p.clear();
                        }
                    }
                    self.shape.push("purge");
                }
                Ok(())
            }
            AOp::CreateTopic { s, name, id, partitions, expiry, max, replication } => {
                let sid = self.stream_id(&s);
                let seg = self.cfg.segment_size;
                let (ok, why) = match sid {
                    None => (false, "unknown stream"),
                    Some(sid) => {
                        let st = &self.m.streams[&sid];
                        if st.topics.values().any(|t| t.name == name) {
                            (false, "name taken")
                        } else if id.map(|i| st.topics.contains_key(&i)).unwrap_or(false) {
                            (false, "id taken")
                        } else if max != 0 && max != u64::MAX && max < seg {
                            (false, "max size below segment size")
                        } else {
                            (true, "fresh name/id, valid size")
                        }
                    }
                };
                let res = timed(
                    "create_topic",
                    self.cl(http).create_topic(&s.ident(), &name, partitions, CompressionAlgorithm::None, replication, id, expiry_of(expiry), maxsize_of(max)),
                )
                .await?;
                self.outcome("create_topic", ok, &res, why)?;
                if let Ok(td) = res {
                    let sid = sid.unwrap();
                    self.eval("C06:assigned-id-fresh");
                    if self.m.streams[&sid].topics.contains_key(&td.id) || id.map(|i| i != td.id).unwrap_or(false) || td.id == 0 {
                        let w = json!({"create_topic": name, "requested_id": id, "returned_id": td.id});
                        return Err(viol("C06", "assigned-id-fresh", "topic", self.witness(w)));
                    }
                    if id.is_none() {
                        self.event("server_assigned_id");
                    }
                    let eff_exp = if expiry == u64::MAX { self.cfg.default_expiry_us } else { expiry };
                    let eff_max = if max == u64::MAX { self.cfg.default_max_topic_size } else { max };
                    self.m.streams.get_mut(&sid).unwrap().topics.insert(
                        td.id,
                        MTopic { id: td.id, name, parts: vec![vec![]; partitions as usize], expiry: eff_exp, max: eff_max, replication: replication.unwrap_or(1), groups: BTreeMap::new() },
                    );
                    self.shape.push("create_topic");
                }
                Ok(())
            }
            AOp::UpdateTopic { s, t, name, expiry, max, replication } => {
                let sid = self.stream_id(&s);
                let tid = sid.and_then(|sid| self.topic_id(sid, &t));
                let seg = self.cfg.segment_size;
                let (ok, why) = match (sid, tid) {
                    (Some(sid), Some(tid)) => {
                        let st = &self.m.streams[&sid];
                        if st.topics.values().any(|x| x.name == name && x.id != tid) {
                            (false, "name taken")
                        } else if max != 0 && max != u64::MAX && max < seg {
                            (false, "max size below segment size")
                        } else {
                            (true, "existing topic, name free or its own")
                        }
                    }
                    _ => (false, "unknown stream/topic"),
                };
                let res = timed(
                    "update_topic",
                    self.cl(http).update_topic(&s.ident(), &t.ident(), &name, CompressionAlgorithm::None, replication, expiry_of(expiry), maxsize_of(max)),
                )
                .await?;
                self.outcome("update_topic", ok, &res, why)?;
                if res.is_ok() {
                    let by_name = matches!(t, Ref::Name(_));
                    let eff_exp = if expiry == u64::MAX { self.cfg.default_expiry_us } else { expiry };
                    let eff_max = if max == u64::MAX { self.cfg.default_max_topic_size } else { max };
                    let tm = self.m.streams.get_mut(&sid.unwrap()).unwrap().topics.get_mut(&tid.unwrap()).unwrap();
                    let renamed = tm.name != name;
                    tm.name = name;
                    tm.expiry = eff_exp;
                    tm.max = eff_max;
                    tm.replication = replication.unwrap_or(1);
                    if renamed {
                        self.event(if by_name { "rename_by_name" } else { "rename_by_id" });
                    }
                    self.shape.push(if by_name { "update_topic_by_name" } else { "update_topic" });
                }
                Ok(())
            }
            AOp::DeleteTopic { s, t } => {
                let sid = self.stream_id(&s);
                let tid = sid.and_then(|sid| self.topic_id(sid, &t));
                let res = timed("delete_topic", self.cl(http).delete_topic(&s.ident(), &t.ident())).await?;
                self.outcome("delete_topic", tid.is_some(), &res, "existing topic")?;
                if res.is_ok() {
                    let tm = self.m.streams.get_mut(&sid.unwrap()).unwrap().topics.remove(&tid.unwrap()).unwrap();
                    if tm.groups.values().any(|g| !g.members.is_empty()) {
                        self.event("deleted_with_memberships");
                        self.shape.push("delete_with_members");
                    }
                    self.event("entity_deleted");
                    self.shape.push("delete_topic");
                    self.check_dirs("after-delete-topic")?;
                    self.check_clients("after-delete-topic").await?;
                }
                Ok(())
            }
            AOp::PurgeTopic { s, t } => {
                let sid = self.stream_id(&s);
                let tid = sid.and_then(|sid| self.topic_id(sid, &t));
                let res = timed("purge_topic", self.cl(http).purge_topic(&s.ident(), &t.ident())).await?;
                self.outcome("purge_topic", tid.is_some(), &res, "existing topic")?;
                if res.is_ok() {
                    let tm = self.m.streams.get_mut(&sid.unwrap()).unwrap().topics.get_mut(&tid.unwrap()).unwrap();
                    for p in tm.parts.iter_mut() {
                        p.clear();
                    }
                    self.shape.push("purge");
                }
                Ok(())
            }
            AOp::CreatePartitions { s, t, n } => {
                let sid = self.stream_id(&s);
                let tid = sid.and_then(|sid| self.topic_id(sid, &t));
                let res = timed("create_partitions", self.cl(http).create_partitions(&s.ident(), &t.ident(), n)).await?;
                self.outcome("create_partitions", tid.is_some(), &res, "existing topic")?;
                if res.is_ok() {
                    let tm = self.m.streams.get_mut(&sid.unwrap()).unwrap().topics.get_mut(&tid.unwrap()).unwrap();
                    for _ in 0..n {
                        tm.parts.push(vec![]);
                    }
                    self.shape.push("create_partitions");
                }
                Ok(())
            }
            AOp::DeletePartitions { s, t, n } => {
                let sid = self.stream_id(&s);
                let tid = sid.and_then(|sid| self.topic_id(sid, &t));
                let res = timed("delete_partitions", self.cl(http).delete_partitions(&s.ident(), &t.ident(), n)).await?;
                self.outcome("delete_partitions", tid.is_some(), &res, "existing topic")?;
                if res.is_ok() {
                    let over = n as usize > self.m.streams[&sid.unwrap()].topics[&tid.unwrap()].parts.len();
                    if over {
                        self.event("delete_more_partitions_than_exist");
                        self.shape.push("delete_partitions_over");
                    }
                    let tm = self.m.streams.get_mut(&sid.unwrap()).unwrap().topics.get_mut(&tid.unwrap()).unwrap();
                    for _ in 0..n {
                        tm.parts.pop();
                    }
                    self.shape.push("delete_partitions");
                    self.check_dirs("after-delete-partitions")?;
                }
                Ok(())
            }
            AOp::CreateGroup { s, t, name, id } => {
                let sid = self.stream_id(&s);
                let tid = sid.and_then(|sid| self.topic_id(sid, &t));
                let (ok, why) = match (sid, tid) {
                    (Some(sid), Some(tid)) => {
                        let tm = &self.m.streams[&sid].topics[&tid];
                        if tm.groups.values().any(|g| g.name == name) {
                            (false, "name taken")
                        } else if id.map(|i| tm.groups.contains_key(&i)).unwrap_or(false) {
                            (false, "id taken")
                        } else {
                            (true, "fresh")
                        }
                    }
                    _ => (false, "unknown stream/topic"),
                };
                let res = timed("create_group", self.cl(http).create_consumer_group(&s.ident(), &t.ident(), &name, id)).await?;
                self.outcome("create_consumer_group", ok, &res, why)?;
                if let Ok(gd) = res {
                    let tm = self.m.streams.get_mut(&sid.unwrap()).unwrap().topics.get_mut(&tid.unwrap()).unwrap();
                    let bad = tm.groups.contains_key(&gd.id) || id.map(|i| i != gd.id).unwrap_or(false) || gd.id == 0;
                    if !bad {
                        tm.groups.insert(gd.id, MGroup { id: gd.id, name: name.clone(), members: BTreeSet::new() });
                    }
                    self.eval("C06:assigned-id-fresh");
                    if bad {
                        let w = json!({"create_group": name, "requested_id": id, "returned_id": gd.id});
                        return Err(viol("C06", "assigned-id-fresh", "group", self.witness(w)));
                    }
                    if id.is_none() {
                        self.event("server_assigned_id");
                    }
                    self.shape.push("create_group");
                }
                Ok(())
            }
            AOp::DeleteGroup { s, t, g } => {
                let sid = self.stream_id(&s);
                let tid = sid.and_then(|sid| self.topic_id(sid, &t));
                let gid = match (sid, tid) {
                    (Some(a), Some(b)) => self.group_id(a, b, &g),
                    _ => None,
                };
                let res = timed("delete_group", self.cl(http).delete_consumer_group(&s.ident(), &t.ident(), &g.ident())).await?;
                self.outcome("delete_consumer_group", gid.is_some(), &res, "existing group")?;
                if res.is_ok() {
                    let gm = self.m.streams.get_mut(&sid.unwrap()).unwrap().topics.get_mut(&tid.unwrap()).unwrap().groups.remove(&gid.unwrap()).unwrap();
                    if !gm.members.is_empty() {
                        self.event("deleted_with_memberships");
                        self.shape.push("delete_with_members");
                    }
                    self.event("entity_deleted");
                    self.shape.push("delete_group");
                    self.check_clients("after-delete-group").await?;
                }
                Ok(())
            }
            AOp::Join { s, t, g, client } | AOp::Leave { s, t, g, client } => {
                let join = matches!(self.ops.last().unwrap().0, AOp::Join { .. });
                let sid = self.stream_id(&s);
                let tid = sid.and_then(|sid| self.topic_id(sid, &t));
                let gid = match (sid, tid) {
                    (Some(a), Some(b)) => self.group_id(a, b, &g),
                    _ => None,
                };
                let c = &self.tcp[client % self.tcp.len()];
                let res = if join {
                    timed("join", c.join_consumer_group(&s.ident(), &t.ident(), &g.ident())).await?
                } else {
                    timed("leave", c.leave_consumer_group(&s.ident(), &t.ident(), &g.ident())).await?
                };
                let is_member = gid.map(|gid| self.m.streams[&sid.unwrap()].topics[&tid.unwrap()].groups[&gid].members.contains(&(client % N_CLIENTS))).unwrap_or(false);
                // joining twice and leaving without membership are no-ops: whether the server reports them as
                // success or as an error is not specified, only that nothing changes (checked below).
                if gid.is_none() || join || is_member {
                    self.outcome(if join { "join_consumer_group" } else { "leave_consumer_group" }, gid.is_some(), &res, "existing group")?;
                }
                if res.is_ok() && !join && !is_member {
                    self.check_clients("after-noop-leave").await?;
                    return Ok(());
                }
                if res.is_ok() {
                    let gm = self.m.streams.get_mut(&sid.unwrap()).unwrap().topics.get_mut(&tid.unwrap()).unwrap().groups.get_mut(&gid.unwrap()).unwrap();
                    if join {
                        gm.members.insert(client % N_CLIENTS);
                    } else {
                        gm.members.remove(&(client % N_CLIENTS));
                    }
                    self.shape.push(if join { "join" } else { "leave" });
                    self.check_clients("after-membership-change").await?;
                }
                Ok(())
            }
            AOp::CreateUser { name, active, perms } => {
                let taken = self.m.users.values().any(|u| u.name == name);
                let pw = format!("pw-{}-{}", name, self.hist & 0xffff);
                let status = if active { UserStatus::Active } else { UserStatus::Inactive };
                let res = timed("create_user", self.cl(http).create_user(&name, &pw, status, perms_of(perms))).await?;
                self.outcome("create_user", !taken, &res, "fresh username")?;
                if let Ok(u) = res {
                    self.eval("C06:assigned-id-fresh");
                    if self.m.users.contains_key(&u.id) || u.id <= 1 {
                        let w = json!({"create_user": name, "returned_id": u.id, "ids_in_use": self.m.users.keys().collect::<Vec<_>>()});
                        return Err(viol("C06", "assigned-id-fresh", "user", self.witness(w)));
                    }
                    self.m.secrets.push(pw.clone());
                    self.m.users.insert(u.id, MUser { id: u.id, name, active, perms, password: pw, previous: vec![] });
                    self.event("server_assigned_id");
                    self.shape.push("create_user");
                }
                Ok(())
            }
            AOp::UpdateUser { u, name, active } => {
                let uid = self.user_id(&u);
                let taken = name.as_ref().map(|n| self.m.users.values().any(|x| &x.name == n && Some(x.id) != uid)).unwrap_or(false);
                let (ok, why) = match uid {
                    None => (false, "unknown user"),
                    Some(_) if taken => (false, "username taken"),
                    Some(_) => (true, "existing user"),
                };
                let st = active.map(|a| if a { UserStatus::Active } else { UserStatus::Inactive });
                let res = timed("update_user", self.cl(http).update_user(&u.ident(), name.as_deref(), st)).await?;
                self.outcome("update_user", ok, &res, why)?;
                if res.is_ok() {
                    let um = self.m.users.get_mut(&uid.unwrap()).unwrap();
                    if let Some(n) = name {
                        um.name = n;
                    }
                    if let Some(a) = active {
                        um.active = a;
                    }
                    self.shape.push("update_user");
                }
                Ok(())
            }
            AOp::DeleteUser { u } => {
                let uid = self.user_id(&u);
                let (ok, why) = match uid {
                    None => (false, "unknown user"),
                    Some(1) => (false, "root cannot be deleted"),
                    Some(_) => (true, "existing user"),
                };
                let res = timed("delete_user", self.cl(http).delete_user(&u.ident())).await?;
                if uid == Some(1) && res.is_ok() {
                    let w = json!({"delete_user": "root", "server": "accepted"});
                    return Err(viol("C09", "root-protected", "deleted", self.witness(w)));
                }
                self.outcome("delete_user", ok, &res, why)?;
                if res.is_ok() {
                    self.m.users.remove(&uid.unwrap());
                    for t in self.m.toks.iter_mut().filter(|t| Some(t.owner) == uid) {
                        t.deleted = true;
                    }
                    self.event("entity_deleted");
                    self.event("user_deleted");
                    self.shape.push("delete_user");
                }
                Ok(())
            }
            AOp::UpdatePermissions { u, perms } => {
                let uid = self.user_id(&u);
                let (ok, why) = match uid {
                    None => (false, "unknown user"),
                    Some(1) => (false, "root permissions cannot be changed"),
                    Some(_) => (true, "existing user"),
                };
                let res = timed("update_permissions", self.cl(http).update_permissions(&u.ident(), perms_of(perms))).await?;
                if uid == Some(1) && res.is_ok() {
                    let w = json!({"update_permissions": "root", "server": "accepted"});
                    return Err(viol("C09", "root-protected", "permissions-changed", self.witness(w)));
                }
                self.outcome("update_permissions", ok, &res, why)?;
                if res.is_ok() {
                    self.m.users.get_mut(&uid.unwrap()).unwrap().perms = perms;
                    self.shape.push("update_permissions");
                }
                Ok(())
            }
            AOp::ChangePassword { u, correct } => {
                let uid = self.user_id(&u);
                let cur = uid.map(|i| self.m.users[&i].password.clone()).unwrap_or_else(|| "nope-nope".into());
                let given = if correct { cur.clone() } else { format!("{cur}-wrong") };
                let newpw = format!("np-{}-{}", self.ops.len(), self.hist & 0xfff);
                let res = timed("change_password", self.cl(http).change_password(&u.ident(), &given, &newpw)).await?;
                let ok = uid.is_some() && correct;
                self.eval("C10:change-needs-current");
                if !correct && res.is_ok() && uid.is_some() {
                    let w = json!({"change_password": format!("{u:?}"), "current_password": "wrong", "server": "accepted"});
                    return Err(viol("C10", "change-needs-current", "accepted-with-wrong-current", self.witness(w)));
                }
                self.outcome("change_password", ok, &res, "existing user, correct current password")?;
                if res.is_ok() {
                    self.m.secrets.push(newpw.clone());
                    let um = self.m.users.get_mut(&uid.unwrap()).unwrap();
                    let old = std::mem::replace(&mut um.password, newpw);
                    um.previous.push(old);
                    self.event("password_changed");
                    self.shape.push("change_password");
                }
                Ok(())
            }
            AOp::CreateToken { name, expiry_s } => {
                let taken = self.m.toks.iter().any(|t| t.owner == 1 && t.name == name && !t.deleted);
                let stale = self.m.toks.iter().any(|t| t.owner == 1 && t.name == name && !t.deleted && self.token_unexpired(t) != Some(true));
                let exp = if expiry_s == 0 { PersonalAccessTokenExpiry::NeverExpire } else { PersonalAccessTokenExpiry::ExpireDuration(IggyDuration::from(expiry_s * 1_000_000)) };
                let res = timed("create_token", self.cl(http).create_personal_access_token(&name, exp)).await?;
                if !stale {
                    self.outcome("create_personal_access_token", !taken, &res, "fresh token name")?;
                }
                if let Ok(raw) = res {
                    for t in self.m.toks.iter_mut().filter(|t| t.owner == 1 && t.name == name) {
                        t.deleted = true;
                    }
                    let now = iggy::utils::timestamp::IggyTimestamp::now().as_micros();
                    self.m.secrets.push(raw.token.clone());
                    self.m.toks.push(TokRec { owner: 1, name: name.clone(), raw: raw.token.clone(), created_us: now, expiry_s, deleted: false });
                    self.m.tokens.insert(name, (raw.token, expiry_s));
                    self.shape.push("create_token");
                }
                Ok(())
            }
            AOp::DeleteToken { name } => {
                let exists = self.m.toks.iter().any(|t| t.owner == 1 && t.name == name && !t.deleted);
                let stale = self.m.toks.iter().any(|t| t.owner == 1 && t.name == name && !t.deleted && self.token_unexpired(t) != Some(true));
                let res = timed("delete_token", self.cl(http).delete_personal_access_token(&name)).await?;
                if !stale {
                    self.outcome("delete_personal_access_token", exists, &res, "existing token")?;
                }
                if res.is_ok() {
                    self.m.tokens.remove(&name);
                    for t in self.m.toks.iter_mut().filter(|t| t.owner == 1 && t.name == name && !t.deleted) {
                        t.deleted = true;
                    }
                    self.event("token_deleted");
                    self.shape.push("delete_token");
                }
                Ok(())
            }
            AOp::Send { s, t, part, n } => {
                let sid = self.stream_id(&s);
                let tid = sid.and_then(|sid| self.topic_id(sid, &t));
                let nparts = match (sid, tid) {
                    (Some(a), Some(b)) => self.m.streams[&a].topics[&b].parts.len() as u32,
                    _ => 0,
                };
                let ok = tid.is_some() && part >= 1 && part <= nparts;
                self.seq += 1;
                let mut msgs = vec![];
                let mut pls = vec![];
                for i in 0..n {
                    let p = Bytes::from(format!("{:x}/a{}/{}|admin-payload", self.hist & 0xffff_ffff, self.seq, i));
                    pls.push(p.clone());
                    msgs.push(Message::new(Some(((self.hist as u128) << 64) | ((self.seq as u128) << 20) | (i as u128 + 1)), p, None));
                }
                let res = timed("send", self.cl(http).send_messages(&s.ident(), &t.ident(), &Partitioning::partition_id(part), &mut msgs)).await?;
                self.outcome("send_messages", ok, &res, "existing partition")?;
                if res.is_ok() {
                    let tm = self.m.streams.get_mut(&sid.unwrap()).unwrap().topics.get_mut(&tid.unwrap()).unwrap();
                    tm.parts[(part - 1) as usize].extend(pls);
                }
                Ok(())
            }
            AOp::Dump => self.dump_and_compare("dump", true).await,
            AOp::Restart => self.restart().await,
            AOp::TryLogin { name, cand, http } => self.try_login(&name, cand, http).await,
            AOp::TryToken { idx } => self.try_token(idx).await,
            AOp::UserToken { u, name, expiry_s } => self.user_token(&u, &name, expiry_s, true).await,
            AOp::DeleteUserToken { u, name } => self.user_token(&u, &name, 0, false).await,
            AOp::LogoutCheck => self.logout_check().await,
            AOp::HttpAuthCheck => self.http_auth_check().await,
            AOp::AdvanceClock { s } => {
                iggy::utils::timestamp::verif_clock::advance_micros(s * 1_000_000);
                self.event("clock_advanced");
                Ok(())
            }
            AOp::CleanTokens => {
                let r = timed("clean_tokens", self.inst.as_ref().unwrap().clean_tokens()).await?;
                r.map_err(Stop::Inconclusive)?;
                self.event("token_cleaner_pass");
                self.shape.push("clean_tokens");
                Ok(())
            }
            AOp::ScanSecrets => self.scan_secrets("scan"),
        }
    }

    /// is the token alive at the server's current (virtual) time?  None = too close to the boundary to call
    fn token_state(&self, t: &TokRec) -> Option<bool> {
        if t.deleted {
            return Some(false);
        }
        let owner = self.m.users.get(&t.owner);
        let Some(owner) = owner else { return Some(false) };
        if !owner.active {
            return Some(false);
        }
        if t.expiry_s == 0 {
            return Some(true);
        }
        let now = iggy::utils::timestamp::IggyTimestamp::now().as_micros();
        let exp = t.created_us + t.expiry_s * 1_000_000;
        if now + 2_000_000 < exp {
            Some(true)
        } else if now > exp + 2_000_000 {
            Some(false)
        } else {
            None
        }
    }

    /// Some(true) = certainly not expired, Some(false) = certainly expired, None = near the boundary
    fn token_unexpired(&self, t: &TokRec) -> Option<bool> {
        if t.expiry_s == 0 {
            return Some(true);
        }
        let now = iggy::utils::timestamp::IggyTimestamp::now().as_micros();
        let exp = t.created_us + t.expiry_s * 1_000_000;
        if now + 2_000_000 < exp {
            Some(true)
        } else if now > exp + 2_000_000 {
            Some(false)
        } else {
            None
        }
    }

    async fn try_login(&mut self, name: &str, cand: u8, http: bool) -> R<()> {
        let user = self.m.users.values().find(|u| u.name == name).cloned();
        let other_pw = self.m.users.values().find(|u| u.name != name && u.id != 1).map(|u| u.password.clone());
        let (pw, label) = match (cand, &user) {
            (0, Some(u)) => (u.password.clone(), "current"),
            (2, Some(u)) if !u.previous.is_empty() => (u.previous[u.previous.len() - 1].clone(), "previous"),
            (3, _) if other_pw.is_some() => (other_pw.unwrap(), "other-users"),
            (0, None) => (format!("pw-{}-{}", name, self.hist & 0xffff), "of-unknown-or-deleted-user"),
            _ => ("definitely-wrong-pw".to_string(), "wrong"),
        };
        let same_as_current = user.as_ref().map(|u| u.password == pw).unwrap_or(false);
        let expect = user.as_ref().map(|u| u.active).unwrap_or(false) && same_as_current;
        let addr = self.inst.as_ref().unwrap().tcp_addr;
        let ok = if http && self.with_http && self.inst.as_ref().unwrap().http_addr.is_some() {
            let a = self.inst.as_ref().unwrap().http_addr.unwrap();
            let h = HttpClient::create(Arc::new(HttpClientConfig { api_url: format!("http://{a}"), retries: 0 })).map_err(|e| Stop::Inconclusive(e.to_string()))?;
            timed("http login", h.login_user(name, &pw)).await?.is_ok()
        } else {
            let c = RawClient::connect(addr).await.map_err(Stop::Inconclusive)?;
            let r = timed("login", c.login_user(name, &pw)).await?;
            if let Ok(idn) = &r {
                // an accepted login must open exactly that user's session
                let me = timed("get_me", c.get_me()).await?;
                if let (Some(u), Ok(me)) = (&user, me) {
                    if idn.user_id != u.id || me.user_id != Some(u.id) {
                        let w = json!({"login": name, "returned_user_id": idn.user_id, "session_user_id": me.user_id, "model_id": u.id});
                        return Err(viol("C10", "login-iff-valid", "wrong-identity", self.witness(w)));
                    }
                }
            }
            r.is_ok()
        };
        self.eval("C10:login-iff-valid");
        self.event(&format!("login_attempt_{label}"));
        if ok != expect {
            let w = json!({"login": name, "candidate": label, "user_exists": user.is_some(), "active": user.as_ref().map(|u| u.active), "server": if ok { "accepted" } else { "refused" }, "http": http});
            let trig = if ok { format!("accepted/{label}") } else { format!("refused/{label}") };
            return Err(viol("C10", "login-iff-valid", &trig, self.witness(w)));
        }
        self.shape.push(if ok { "login_ok" } else { "login_refused" });
        Ok(())
    }

    async fn try_token(&mut self, idx: usize) -> R<()> {
        if self.m.toks.is_empty() {
            return Ok(());
        }
        let t = self.m.toks[idx % self.m.toks.len()].clone();
        let Some(expect) = self.token_state(&t) else {
            self.event("token_login_skipped_near_expiry_boundary");
            return Ok(());
        };
        let addr = self.inst.as_ref().unwrap().tcp_addr;
        let c = RawClient::connect(addr).await.map_err(Stop::Inconclusive)?;
        let r = timed("login_pat", c.login_with_personal_access_token(&t.raw)).await?;
        self.eval("C10:token-iff-valid");
        let kind = if t.deleted {
            "deleted-or-owner-deleted"
        } else if !self.m.users.get(&t.owner).map(|u| u.active).unwrap_or(false) {
            "owner-inactive"
        } else if !expect {
            "expired"
        } else {
            "alive"
        };
        self.event(&format!("token_login_{kind}"));
        if r.is_ok() != expect {
            let w = json!({"token": t.name, "owner": t.owner, "state": kind, "server": if r.is_ok() { "accepted".to_string() } else { format!("refused: {}", r.as_ref().unwrap_err()) }});
            return Err(viol("C10", "token-iff-valid", &format!("{}/{kind}", if r.is_ok() { "accepted" } else { "refused" }), self.witness(w)));
        }
        if let Ok(idn) = r {
            if idn.user_id != t.owner {
                let w = json!({"token": t.name, "owner": t.owner, "logged_in_as": idn.user_id});
                return Err(viol("C10", "token-iff-valid", "wrong-identity", self.witness(w)));
            }
        }
        self.shape.push(if expect { "token_ok" } else { "token_refused" });
        Ok(())
    }

    /// create / delete a token as a non-root user (own connection, logged in with the user's password)
    async fn user_token(&mut self, u: &Ref, name: &str, expiry_s: u64, create: bool) -> R<()> {
        let Some(uid) = self.user_id(u) else { return Ok(()) };
        let um = self.m.users[&uid].clone();
        if !um.active {
            return Ok(());
        }
        let addr = self.inst.as_ref().unwrap().tcp_addr;
        let c = RawClient::connect(addr).await.map_err(Stop::Inconclusive)?;
        let r = timed("login", c.login_user(&um.name, &um.password)).await?;
        if r.is_err() {
            let w = json!({"login_for_token_op": um.name, "error": r.unwrap_err().to_string()});
            return Err(viol("C10", "login-iff-valid", "refused/current", self.witness(w)));
        }
        let exists = self.m.toks.iter().any(|t| t.owner == uid && t.name == name && !t.deleted);
        // an expired token may or may not have been removed already (cleaner pass, restart): outcome unconstrained then
        let stale = self.m.toks.iter().any(|t| t.owner == uid && t.name == name && !t.deleted && self.token_unexpired(t) != Some(true));
        if create {
            let exp = if expiry_s == 0 { PersonalAccessTokenExpiry::NeverExpire } else { PersonalAccessTokenExpiry::ExpireDuration(IggyDuration::from(expiry_s * 1_000_000)) };
            let res = timed("create_token", c.create_personal_access_token(name, exp)).await?;
            if !stale {
                self.outcome("create_personal_access_token", !exists, &res, "fresh token name for that user")?;
            }
            if let Ok(raw) = res {
                for t in self.m.toks.iter_mut().filter(|t| t.owner == uid && t.name == name) {
                    t.deleted = true;
                }
                let now = iggy::utils::timestamp::IggyTimestamp::now().as_micros();
                self.m.secrets.push(raw.token.clone());
                self.m.toks.push(TokRec { owner: uid, name: name.to_string(), raw: raw.token.clone(), created_us: now, expiry_s, deleted: false });
                if uid == 1 {
                    self.m.tokens.insert(name.to_string(), (raw.token, expiry_s));
                }
                self.event("non_root_token_created");
                self.shape.push("user_token");
            }
        } else {
            let res = timed("delete_token", c.delete_personal_access_token(name)).await?;
            if !stale {
                self.outcome("delete_personal_access_token", exists, &res, "existing token of that user")?;
            }
            if res.is_ok() {
                for t in self.m.toks.iter_mut().filter(|t| t.owner == uid && t.name == name) {
                    t.deleted = true;
                }
                if uid == 1 {
                    self.m.tokens.remove(name);
                }
                self.event("token_deleted");
                self.shape.push("user_token_deleted");
            }
        }
        Ok(())
    }

    /// Logging out de-authenticates the connection.
    async fn logout_check(&mut self) -> R<()> {
        let addr = self.inst.as_ref().unwrap().tcp_addr;
        let c = RawClient::connect(addr).await.map_err(Stop::Inconclusive)?;
        let root_pw = self.m.users[&1].password.clone();
        timed("login", c.login_user("iggy", &root_pw)).await?.map_err(|e| Stop::Inconclusive(format!("root login: {e}")))?;
        let before = timed("get_streams", c.get_streams()).await?;
        let lo = timed("logout", c.logout_user()).await?;
        let after = timed("get_streams", c.get_streams()).await?;
        let after2 = timed("create_stream", c.create_stream("after-logout-stream", Some(77))).await?;
        self.eval("C10:logout-deauthenticates");
        self.event("logout_checked");
        if before.is_err() || lo.is_err() || after.is_ok() || after2.is_ok() {
            let w = json!({"before_logout": before.is_ok(), "logout": lo.is_ok(), "get_streams_after_logout": after.is_ok(), "create_stream_after_logout": after2.is_ok()});
            if after2.is_ok() {
                self.m.streams.insert(77, MStream { id: 77, name: "after-logout-stream".into(), topics: BTreeMap::new() });
            }
            return Err(viol("C10", "logout-deauthenticates", "request-after-logout-accepted", self.witness(w)));
        }
        self.shape.push("logout");
        Ok(())
    }

    /// HTTP: login gives a JWT, logout revokes it.
    async fn http_auth_check(&mut self) -> R<()> {
        let Some(a) = self.inst.as_ref().unwrap().http_addr else { return Ok(()) };
        let h = HttpClient::create(Arc::new(HttpClientConfig { api_url: format!("http://{a}"), retries: 0 })).map_err(|e| Stop::Inconclusive(e.to_string()))?;
        let root_pw = self.m.users[&1].password.clone();
        let idn = timed("http login", h.login_user("iggy", &root_pw)).await?.map_err(|e| Stop::Inconclusive(format!("http root login: {e}")))?;
        let token = idn.access_token.map(|t| t.token).unwrap_or_default();
        let before = timed("http get_streams", h.get_streams()).await?;
        let lo = timed("http logout", h.logout_user()).await?;
        // replay the revoked JWT by hand
        let url = format!("http://{a}/streams");
        let resp = timed("raw http", reqwest::Client::new().get(&url).bearer_auth(&token).send()).await?;
        let status = resp.map(|r| r.status().as_u16()).unwrap_or(0);
        self.eval("C10:logout-deauthenticates");
        self.event("http_logout_checked");
        if before.is_err() || lo.is_err() || status == 200 {
            let w = json!({"http_before_logout": before.is_ok(), "logout": lo.is_ok(), "revoked_jwt_status": status});
            return Err(viol("C10", "logout-deauthenticates", "http-revoked-jwt-accepted", self.witness(w)));
        }
        if !token.is_empty() {
            self.m.secrets.push(token);
        }
        self.shape.push("http_logout");
        Ok(())
    }

    /// No password and no raw token (as bytes, or base64 of them) in any file under the data directory.
    pub fn scan_secrets(&mut self, why: &str) -> R<()> {
        use base64::Engine;
        let mut files = vec![];
        crate::world::collect_files(&self.dir, &mut files);
        let mut needles: Vec<(String, Vec<u8>)> = vec![];
        for sct in &self.m.secrets {
            if sct.len() < 8 {
                continue;
            }
            needles.push((sct.clone(), sct.as_bytes().to_vec()));
            needles.push((format!("base64({sct})"), base64::engine::general_purpose::STANDARD.encode(sct.as_bytes()).into_bytes()));
        }
        let mut bytes = 0u64;
        for f in &files {
            let Ok(data) = std::fs::read(f) else { continue };
            bytes += data.len() as u64;
            for (label, n) in &needles {
                self.eval("C10:no-cleartext-secret");
                if crate::world::find(&data, n).is_some() {
                    let short: String = label.chars().take(24).collect();
                    let w = json!({"why": why, "file": f.to_string_lossy(), "secret": short});
                    let kind = if label.starts_with("pw-") || label.starts_with("np-") || label.starts_with("base64(pw") || label.starts_with("base64(np") { "password" } else { "token" };
                    return Err(viol("C10", "no-cleartext-secret", kind, self.witness(w)));
                }
            }
        }
        *self.ev.entry("secret_scan_files".into()).or_insert(0) += files.len() as u64;
        *self.ev.entry("secret_scan_bytes".into()).or_insert(0) += bytes;
        Ok(())
    }

    // ------------------------------------------------------------------ observations

    /// `get_client` for every connection: memberships must equal the model's (cascade on delete, C06).
    async fn check_clients(&mut self, why: &'static str) -> R<()> {
        for ci in 0..self.tcp.len() {
            let cid = self.client_ids[ci];
            let info = timed("get_client", self.tcp[0].get_client(cid)).await?;
            let info = match info {
                Ok(Some(i)) => i,
                other => return Err(Stop::Inconclusive(format!("get_client: {other:?}"))),
            };
            let mut got: Vec<(u32, u32, u32)> = info.consumer_groups.iter().map(|g| (g.stream_id, g.topic_id, g.group_id)).collect();
            got.sort();
            let mut exp = vec![];
            for s in self.m.streams.values() {
                for t in s.topics.values() {
                    for g in t.groups.values() {
                        if g.members.contains(&ci) {
                            exp.push((s.id, t.id, g.id));
                        }
                    }
                }
            }
            exp.sort();
            self.eval("C06:client-memberships");
            if got != exp || info.consumer_groups_count as usize != exp.len() {
                let w = json!({"why": why, "client": ci, "memberships_reported": got, "expected": exp, "count_reported": info.consumer_groups_count});
                return Err(viol("C06", "client-memberships", why, self.witness(w)));
            }
        }
        Ok(())
    }

    /// Directory tree under streams/ must mirror the live entities (no leftovers, nothing missing).
    fn check_dirs(&mut self, why: &'static str) -> R<()> {
        self.eval("C06:directories");
        let root = self.dir.join("streams");
        let mut got = BTreeSet::new();
        let list = |p: &std::path::Path| -> Vec<String> {
            std::fs::read_dir(p).map(|rd| rd.flatten().filter(|e| e.path().is_dir()).map(|e| e.file_name().to_string_lossy().to_string()).collect()).unwrap_or_default()
        };
        for s in list(&root) {
            got.insert(format!("s{s}"));
            for t in list(&root.join(&s).join("topics")) {
                got.insert(format!("s{s}/t{t}"));
                for p in list(&root.join(&s).join("topics").join(&t).join("partitions")) {
                    got.insert(format!("s{s}/t{t}/p{p}"));
                }
            }
        }
        let mut exp = BTreeSet::new();
        for s in self.m.streams.values() {
            exp.insert(format!("s{}", s.id));
            for t in s.topics.values() {
                exp.insert(format!("s{}/t{}", s.id, t.id));
                for p in 1..=t.parts.len() {
                    exp.insert(format!("s{}/t{}/p{}", s.id, t.id, p));
                }
            }
        }
        if got != exp {
            let left: Vec<_> = got.difference(&exp).cloned().collect();
            let missing: Vec<_> = exp.difference(&got).cloned().collect();
            let w = json!({"why": why, "left_behind": left, "missing": missing});
            let trig = if !missing.is_empty() { "live-entity-directory-missing" } else { "left-behind" };
            return Err(viol("C06", "directories", trig, self.witness(w)));
        }
        Ok(())
    }

    /// The model's view in the same normal form as `server_dump`.
    fn model_dump(&self, with_members: bool) -> Value {
        let streams: Vec<Value> = self
            .m
            .streams
            .values()
            .map(|s| {
                let topics: Vec<Value> = s
                    .topics
                    .values()
                    .map(|t| {
                        let groups: Vec<Value> = t
                            .groups
                            .values()
                            .map(|g| {
                                let members: Vec<u32> = if with_members { g.members.iter().map(|ci| self.client_ids[*ci]).collect::<BTreeSet<_>>().into_iter().collect() } else { vec![] };
                                json!({"id": g.id, "name": g.name, "partitions_count": t.parts.len(), "members": members})
                            })
                            .collect();
                        let parts: Vec<Value> = t.parts.iter().enumerate().map(|(i, p)| json!({"id": i + 1, "messages": p.len(), "current_offset": p.len().saturating_sub(1)})).collect();
                        json!({"id": t.id, "name": t.name, "partitions_count": t.parts.len(), "expiry": t.expiry, "max": t.max, "replication": t.replication,
                            "messages": t.parts.iter().map(|p| p.len()).sum::<usize>(), "partitions": parts, "groups": groups})
                    })
                    .collect();
                json!({"id": s.id, "name": s.name, "topics_count": s.topics.len(), "messages": s.topics.values().map(|t| t.parts.iter().map(|p| p.len()).sum::<usize>()).sum::<usize>(), "topics": topics})
            })
            .collect();
        let users: Vec<Value> = self.m.users.values().map(|u| json!({"id": u.id, "name": u.name, "active": u.active, "permissions": if u.id == 1 { json!("root") } else { serde_json::to_value(perms_of(u.perms)).unwrap() }})).collect();
        let tokens: Vec<Value> = self
            .m
            .toks
            .iter()
            .filter(|t| t.owner == 1 && !t.deleted && self.token_unexpired(t) == Some(true))
            .map(|t| (t.name.clone(), t.expiry_s != 0))
            .collect::<BTreeSet<_>>()
            .into_iter()
            .map(|(n, e)| json!({"name": n, "expires": e}))
            .collect();
        json!({"streams": streams, "users": users, "root_tokens": tokens})
    }

    /// Everything visible through get/list calls, by id AND by name, in a normal form.
    async fn server_dump(&mut self, http: bool, with_members: bool) -> R<Value> {
        let c = self.cl(http);
        let inc = |what: &str, e: IggyError| Stop::Inconclusive(format!("{what}: {e}"));
        let list = timed("get_streams", c.get_streams()).await?.map_err(|e| inc("get_streams", e))?;
        let mut streams = vec![];
        let mut ids: Vec<u32> = list.iter().map(|s| s.id).collect();
        ids.sort();
        let mut by_name_mismatch: Option<Value> = None;
        for sid in ids {
            let sl = list.iter().find(|s| s.id == sid).unwrap();
            let sd = match timed("get_stream", c.get_stream(&Identifier::numeric(sid).unwrap())).await?.map_err(|e| inc("get_stream", e))? {
                Some(s) => s,
                None => {
                    by_name_mismatch = Some(json!({"stream_listed_but_get_by_id_none": sid}));
                    continue;
                }
            };
            // lookup by name must agree with lookup by id
            let sn = timed("get_stream", c.get_stream(&Identifier::named(&sd.name).unwrap())).await?.map_err(|e| inc("get_stream by name", e))?;
            if sn.as_ref().map(|x| x.id) != Some(sd.id) || sl.name != sd.name {
                by_name_mismatch = Some(json!({"stream": sd.id, "name": sd.name, "by_name_id": sn.map(|x| x.id), "listed_name": sl.name}));
            }
            let mut tids: Vec<u32> = sd.topics.iter().map(|t| t.id).collect();
            tids.sort();
            let mut topics = vec![];
            for tid in tids {
                let td = match timed("get_topic", c.get_topic(&Identifier::numeric(sid).unwrap(), &Identifier::numeric(tid).unwrap())).await?.map_err(|e| inc("get_topic", e))? {
                    Some(t) => t,
                    None => {
                        by_name_mismatch = Some(json!({"topic_listed_but_get_by_id_none": [sid, tid]}));
                        continue;
                    }
                };
                let tn = timed("get_topic", c.get_topic(&Identifier::named(&sd.name).unwrap(), &Identifier::named(&td.name).unwrap())).await?.map_err(|e| inc("get_topic by name", e))?;
                if tn.as_ref().map(|x| x.id) != Some(td.id) {
                    by_name_mismatch = Some(json!({"stream": sid, "topic": td.id, "name": td.name, "by_name_id": tn.map(|x| x.id)}));
                }
                let gl = timed("get_groups", c.get_consumer_groups(&Identifier::numeric(sid).unwrap(), &Identifier::numeric(tid).unwrap())).await?.map_err(|e| inc("get_consumer_groups", e))?;
                let mut gids: Vec<u32> = gl.iter().map(|g| g.id).collect();
                gids.sort();
                let mut groups = vec![];
                for gid in gids {
                    let gd = timed("get_group", c.get_consumer_group(&Identifier::numeric(sid).unwrap(), &Identifier::numeric(tid).unwrap(), &Identifier::numeric(gid).unwrap())).await?.map_err(|e| inc("get_consumer_group", e))?;
                    let Some(gd) = gd else {
                        by_name_mismatch = Some(json!({"group_listed_but_get_by_id_none": [sid, tid, gid]}));
                        continue;
                    };
                    let gn = timed("get_group", c.get_consumer_group(&Identifier::numeric(sid).unwrap(), &Identifier::numeric(tid).unwrap(), &Identifier::named(&gd.name).unwrap())).await?.map_err(|e| inc("get_consumer_group by name", e))?;
                    if gn.as_ref().map(|x| x.id) != Some(gd.id) {
                        by_name_mismatch = Some(json!({"group": [sid, tid, gd.id], "name": gd.name, "by_name_id": gn.map(|x| x.id)}));
                    }
                    let mut members: Vec<u32> = if with_members { gd.members.iter().map(|m| m.id).collect() } else { vec![] };
                    members.sort();
                    if with_members && gd.members_count as usize != members.len() {
                        by_name_mismatch = Some(json!({"group": [sid, tid, gd.id], "members_count": gd.members_count, "members_listed": members.len()}));
                    }
                    groups.push(json!({"id": gd.id, "name": gd.name, "partitions_count": gd.partitions_count, "members": members}));
                }
                let mut parts: Vec<Value> = td.partitions.iter().map(|p| json!({"id": p.id, "messages": p.messages_count, "current_offset": p.current_offset})).collect();
                parts.sort_by_key(|p| p["id"].as_u64());
                let exp: u64 = match td.message_expiry {
                    IggyExpiry::NeverExpire => 0,
                    IggyExpiry::ServerDefault => u64::MAX,
                    IggyExpiry::ExpireDuration(d) => d.as_micros(),
                };
                let max: u64 = match td.max_topic_size {
                    MaxTopicSize::Unlimited => 0,
                    MaxTopicSize::ServerDefault => u64::MAX,
                    MaxTopicSize::Custom(b) => b.as_bytes_u64(),
                };
                topics.push(json!({"id": td.id, "name": td.name, "partitions_count": td.partitions_count, "expiry": exp, "max": max, "replication": td.replication_factor,
                    "messages": td.messages_count, "partitions": parts, "groups": groups}));
            }
            streams.push(json!({"id": sd.id, "name": sd.name, "topics_count": sd.topics_count, "messages": sd.messages_count, "topics": topics}));
        }
        let ul = timed("get_users", c.get_users()).await?.map_err(|e| inc("get_users", e))?;
        let mut uids: Vec<u32> = ul.iter().map(|u| u.id).collect();
        uids.sort();
        let mut users = vec![];
        for uid in uids {
            let ud = timed("get_user", c.get_user(&Identifier::numeric(uid).unwrap())).await?.map_err(|e| inc("get_user", e))?;
            let Some(ud) = ud else {
                by_name_mismatch = Some(json!({"user_listed_but_get_by_id_none": uid}));
                continue;
            };
            let un = timed("get_user", c.get_user(&Identifier::named(&ud.username).unwrap())).await?.map_err(|e| inc("get_user by name", e))?;
            if un.as_ref().map(|x| x.id) != Some(ud.id) {
                by_name_mismatch = Some(json!({"user": ud.id, "name": ud.username, "by_name_id": un.map(|x| x.id)}));
            }
            let perms = if ud.id == 1 { json!("root") } else { serde_json::to_value(&ud.permissions).unwrap() };
            users.push(json!({"id": ud.id, "name": ud.username, "active": ud.status == UserStatus::Active, "permissions": perms}));
        }
        let toks = timed("get_tokens", c.get_personal_access_tokens()).await?.map_err(|e| inc("get_personal_access_tokens", e))?;
        let now_us = iggy::utils::timestamp::IggyTimestamp::now().as_micros();
        // tokens whose expiry has passed (or is within 2 s) are left out: whether the cleaner has removed them yet is not part of the catalogue
        let near: Vec<String> = self.m.toks.iter().filter(|t| t.owner == 1 && !t.deleted && self.token_unexpired(t).is_none()).map(|t| t.name.clone()).collect();
        let mut tokens: Vec<Value> = toks
            .iter()
            .filter(|t| t.expiry_at.map(|e| e.as_micros() > now_us).unwrap_or(true) && !near.contains(&t.name))
            .map(|t| json!({"name": t.name, "expires": t.expiry_at.is_some()}))
            .collect();
        tokens.sort_by_key(|t| t["name"].as_str().unwrap().to_string());
        self.eval("C06:lookup-by-name-agrees");
        if let Some(mm) = by_name_mismatch {
            return Err(viol("C06", "lookup-by-name-agrees", "mismatch", self.witness(mm)));
        }
        Ok(json!({"streams": streams, "users": users, "root_tokens": tokens}))
    }

    pub async fn dump_and_compare(&mut self, why: &'static str, scan: bool) -> R<()> {
        let http = self.http.is_some() && (self.ops.len() % 2 == 1);
        let got = self.server_dump(http, true).await?;
        let exp = self.model_dump(true);
        self.eval("C06:catalogue-equals-model");
        if got != exp {
            let d = first_diff(&exp, &got, "");
            let w = json!({"why": why, "first_difference": d, "via": if http { "http" } else { "tcp" }});
            let trig = if why == "after-refused-command" { "refused-command-changed-state" } else { "differs" };
            return Err(viol("C06", "catalogue-equals-model", trig, self.witness(w)));
        }
        self.check_dirs(why)?;
        if scan {
            self.scan_all(why).await?;
        }
        Ok(())
    }

    /// Every surviving topic still holds its messages (payloads, in order).
    async fn scan_all(&mut self, why: &'static str) -> R<()> {
        let who = Consumer::new(Identifier::numeric(4242).unwrap());
        let mut todo = vec![];
        for s in self.m.streams.values() {
            for t in s.topics.values() {
                for (i, p) in t.parts.iter().enumerate() {
                    todo.push((s.id, t.id, i as u32 + 1, p.clone()));
                }
            }
        }
        for (sid, tid, pid, exp) in todo {
            let r = timed("poll", self.tcp[0].poll_messages(&Identifier::numeric(sid).unwrap(), &Identifier::numeric(tid).unwrap(), Some(pid), &who, &PollingStrategy::offset(0), 1000, false)).await?;
            self.eval("C05:topic-holds-messages");
            let got: Vec<Bytes> = match r {
                Ok(pm) => pm.messages.into_iter().map(|m| m.payload).collect(),
                Err(e) => {
                    let w = json!({"why": why, "poll": [sid, tid, pid], "error": e.to_string()});
                    return Err(viol("C05", "topic-holds-messages", "poll-error", self.witness(w)));
                }
            };
            if got != exp {
                let w = json!({"why": why, "partition": [sid, tid, pid], "expected_messages": exp.len(), "got_messages": got.len(),
                    "got_head": got.first().map(|b| crate::world::head(b)), "expected_head": exp.first().map(|b| crate::world::head(b))});
                let prop = if why == "after-restart" { "C05" } else { "C06" };
                return Err(viol(prop, "topic-holds-messages", why, self.witness(w)));
            }
        }
        Ok(())
    }

    async fn restart(&mut self) -> R<()> {
        // before-image through the API (memberships excluded: connections do not survive)
        self.dump_and_compare("before-restart", true).await?;
        let before = self.server_dump(false, false).await?;
        self.tcp.clear();
        self.http = None;
        let inst = self.inst.take().unwrap();
        timed("stop", inst.stop(true)).await?.map_err(|e| viol("C05", "restart-starts", "shutdown-error", self.witness(json!({"shutdown_error": e}))))?;
        self.start().await?;
        self.restarts += 1;
        self.event("restart");
        self.shape.push("restart");
        let after = self.server_dump(false, false).await?;
        self.eval("C05:catalogue-same-after-restart");
        if before != after {
            let d = first_diff(&before, &after, "");
            let w = json!({"first_difference_before_vs_after": d});
            return Err(viol("C05", "catalogue-same-after-restart", "differs", self.witness(w)));
        }
        let exp = self.model_dump(false);
        if after != exp {
            let d = first_diff(&exp, &after, "");
            let w = json!({"first_difference_model_vs_after": d});
            return Err(viol("C05", "catalogue-same-after-restart", "differs-from-model", self.witness(w)));
        }
        self.eval("C05:no-live-directory-discarded");
        if let Err(Stop::Violation(mut v)) = self.check_dirs("after-restart") {
            v.property = "C05".into();
            v.clause = "no-live-directory-discarded".into();
            v.signature = v.signature.replace("C06:directories", "C05:no-live-directory-discarded");
            return Err(Stop::Violation(v));
        }
        self.scan_all("after-restart").await?;
        // credentials behave the same after the restart (shared with C10)
        self.check_logins("after-restart").await
    }

    /// Every known password / token logs in iff the model says so.
    pub async fn check_logins(&mut self, why: &'static str) -> R<()> {
        let addr = self.inst.as_ref().unwrap().tcp_addr;
        let users: Vec<MUser> = self.m.users.values().cloned().collect();
        for u in users {
            let c = RawClient::connect(addr).await.map_err(Stop::Inconclusive)?;
            let r = timed("login", c.login_user(&u.name, &u.password)).await?;
            self.eval("C10:login-iff-valid");
            let exp = u.active;
            if r.is_ok() != exp {
                let w = json!({"why": why, "user": u.name, "user_id": u.id, "active": u.active, "login": if r.is_ok() { "accepted".to_string() } else { format!("refused: {}", r.unwrap_err()) }});
                return Err(viol("C10", "login-iff-valid", &format!("password/{why}"), self.witness(w)));
            }
            if let Ok(idn) = r {
                if idn.user_id != u.id {
                    let w = json!({"why": why, "user": u.name, "model_id": u.id, "login_returned_id": idn.user_id});
                    return Err(viol("C05", "catalogue-same-after-restart", "user-renumbered", self.witness(w)));
                }
            }
        }
        let toks: Vec<TokRec> = self.m.toks.clone();
        for t in toks {
            let Some(expect) = self.token_state(&t) else { continue };
            let c = RawClient::connect(addr).await.map_err(Stop::Inconclusive)?;
            let r = timed("login_pat", c.login_with_personal_access_token(&t.raw)).await?;
            self.eval("C10:token-iff-valid");
            if r.is_ok() != expect {
                let w = json!({"why": why, "token": t.name, "owner": t.owner, "expected_valid": expect, "login": if r.is_ok() { "accepted".to_string() } else { format!("refused: {}", r.unwrap_err()) }});
                return Err(viol("C10", "token-iff-valid", &format!("{}/{why}", if expect { "refused" } else { "accepted" }), self.witness(w)));
            }
        }
        Ok(())
    }
}

/// First path at which two JSON values differ.
pub fn first_diff(a: &Value, b: &Value, path: &str) -> Value {
    match (a, b) {
        (Value::Object(x), Value::Object(y)) => {
            for (k, v) in x {
                match y.get(k) {
                    None => return json!({"path": format!("{path}/{k}"), "expected": v, "got": null}),
                    Some(w) if w != v => return first_diff(v, w, &format!("{path}/{k}")),
                    _ => {}
                }
            }
            for (k, w) in y {
                if !x.contains_key(k) {
                    return json!({"path": format!("{path}/{k}"), "expected": null, "got": w});
                }
            }
            Value::Null
        }
        (Value::Array(x), Value::Array(y)) => {
            for (i, v) in x.iter().enumerate() {
                match y.get(i) {
                    None => return json!({"path": format!("{path}[{i}]"), "expected": short(v), "got": "missing"}),
                    Some(w) if w != v => return first_diff(v, w, &format!("{path}[{i}]")),
                    _ => {}
                }
            }
            if y.len() > x.len() {
                return json!({"path": format!("{path}[{}]", x.len()), "expected": "absent", "got": short(&y[x.len()])});
            }
            Value::Null
        }
        _ => json!({"path": path, "expected": short(a), "got": short(b)}),
    }
}

fn short(v: &Value) -> Value {
    let s = v.to_string();
    if s.len() > 300 {
        Value::String(format!("{}...", &s[..300]))
    } else {
        v.clone()
    }
}

// -------------------------------------------------------------------------------------------------
// generator

fn pick_stream_ref(w: &AdminWorld, rng: &mut Rng) -> Ref {
    let live: Vec<&MStream> = w.m.streams.values().collect();
    if live.is_empty() || rng.chance(1, 10) {
        // unknown target
        return if rng.chance(1, 2) { Ref::Id(rng.range(1, 8) as u32) } else { Ref::Name(rng.pick(&STREAM_NAMES).to_string()) };
    }
    let s = live[rng.below(live.len() as u64) as usize];
    if rng.chance(1, 2) {
        Ref::Id(s.id)
    } else {
        Ref::Name(s.name.clone())
    }
}

fn pick_topic_ref(w: &AdminWorld, rng: &mut Rng, s: &Ref) -> Ref {
    let sid = match s {
        Ref::Id(i) => w.m.streams.get(i).map(|x| x.id),
        Ref::Name(n) => w.m.streams.values().find(|x| &x.name == n).map(|x| x.id),
    };
    let live: Vec<&MTopic> = sid.map(|i| w.m.streams[&i].topics.values().collect()).unwrap_or_default();
    if live.is_empty() || rng.chance(1, 10) {
        return if rng.chance(1, 2) { Ref::Id(rng.range(1, 8) as u32) } else { Ref::Name(rng.pick(&TOPIC_NAMES).to_string()) };
    }
    let t = live[rng.below(live.len() as u64) as usize];
    if rng.chance(1, 2) {
        Ref::Id(t.id)
    } else {
        Ref::Name(t.name.clone())
    }
}

fn pick_group_ref(w: &AdminWorld, rng: &mut Rng, s: &Ref, t: &Ref) -> Ref {
    let sid = match s {
        Ref::Id(i) => w.m.streams.get(i).map(|x| x.id),
        Ref::Name(n) => w.m.streams.values().find(|x| &x.name == n).map(|x| x.id),
    };
    let tm = sid.and_then(|i| match t {
        Ref::Id(j) => w.m.streams[&i].topics.get(j),
        Ref::Name(n) => w.m.streams[&i].topics.values().find(|x| &x.name == n),
    });
    let live: Vec<&MGroup> = tm.map(|t| t.groups.values().collect()).unwrap_or_default();
    if live.is_empty() || rng.chance(1, 10) {
        return if rng.chance(1, 2) { Ref::Id(rng.range(1, 6) as u32) } else { Ref::Name(rng.pick(&GROUP_NAMES).to_string()) };
    }
    let g = live[rng.below(live.len() as u64) as usize];
    if rng.chance(1, 2) {
        Ref::Id(g.id)
    } else {
        Ref::Name(g.name.clone())
    }
}

fn pick_user_ref(w: &AdminWorld, rng: &mut Rng) -> Ref {
    let live: Vec<&MUser> = w.m.users.values().collect();
    if rng.chance(1, 10) {
        return if rng.chance(1, 2) { Ref::Id(rng.range(2, 9) as u32) } else { Ref::Name(rng.pick(&USER_NAMES).to_string()) };
    }
    let u = live[rng.below(live.len() as u64) as usize];
    if rng.chance(1, 2) {
        Ref::Id(u.id)
    } else {
        Ref::Name(u.name.clone())
    }
}

/// weights: stream ops, topic ops, partition ops, group ops, membership, user ops, token ops, send, restart, dump
pub fn gen_admin_op(w: &AdminWorld, rng: &mut Rng, weights: &[u32; 13]) -> AOp {
    let seg = w.cfg.segment_size;
    let opt_id = |rng: &mut Rng| if rng.chance(1, 2) { None } else { Some(rng.range(1, 6) as u32) };
    match rng.weighted(weights) {
        0 => match rng.below(10) {
            0..=4 => AOp::CreateStream { name: rng.pick(&STREAM_NAMES).to_string(), id: opt_id(rng) },
            5..=6 => AOp::UpdateStream { s: pick_stream_ref(w, rng), name: rng.pick(&STREAM_NAMES).to_string() },
            7..=8 => AOp::DeleteStream { s: pick_stream_ref(w, rng) },
            _ => AOp::PurgeStream { s: pick_stream_ref(w, rng) },
        },
        1 => {
            let s = pick_stream_ref(w, rng);
            let expiry = *rng.pick(&[0u64, 0, 60_000_000, 86_400_000_000, u64::MAX]);
            let max = *rng.pick(&[0u64, 0, u64::MAX, seg * 1000, seg * 3000, seg - 1]);
            let replication = *rng.pick(&[None, Some(1u8), Some(3)]);
            match rng.below(10) {
                0..=4 => AOp::CreateTopic { s, name: rng.pick(&TOPIC_NAMES).to_string(), id: opt_id(rng), partitions: rng.range(0, 3) as u32, expiry, max, replication },
                5..=6 => {
                    let t = pick_topic_ref(w, rng, &s);
                    AOp::UpdateTopic { s, t, name: rng.pick(&TOPIC_NAMES).to_string(), expiry, max, replication }
                }
                7..=8 => {
                    let t = pick_topic_ref(w, rng, &s);
                    AOp::DeleteTopic { s, t }
                }
                _ => {
                    let t = pick_topic_ref(w, rng, &s);
                    AOp::PurgeTopic { s, t }
                }
            }
        }
        2 => {
            let s = pick_stream_ref(w, rng);
            let t = pick_topic_ref(w, rng, &s);
            if rng.chance(1, 2) {
                AOp::CreatePartitions { s, t, n: rng.range(1, 3) as u32 }
            } else {
                AOp::DeletePartitions { s, t, n: rng.range(1, 5) as u32 }
            }
        }
        3 => {
            let s = pick_stream_ref(w, rng);
            let t = pick_topic_ref(w, rng, &s);
            if rng.chance(2, 3) {
                AOp::CreateGroup { s, t, name: rng.pick(&GROUP_NAMES).to_string(), id: opt_id(rng) }
            } else {
                let g = pick_group_ref(w, rng, &s, &t);
                AOp::DeleteGroup { s, t, g }
            }
        }
        4 => {
            let s = pick_stream_ref(w, rng);
            let t = pick_topic_ref(w, rng, &s);
            let g = pick_group_ref(w, rng, &s, &t);
            let client = rng.below(N_CLIENTS as u64) as usize;
            if rng.chance(3, 4) {
                AOp::Join { s, t, g, client }
            } else {
                AOp::Leave { s, t, g, client }
            }
        }
        5 => match rng.below(10) {
            0..=3 => AOp::CreateUser { name: rng.pick(&USER_NAMES).to_string(), active: rng.chance(3, 4), perms: rng.below(5) as u8 },
            4 => {
                let u = pick_user_ref(w, rng);
                let is_root = matches!(&u, Ref::Id(1)) || matches!(&u, Ref::Name(n) if n == "iggy");
                // the root user is never renamed or deactivated by the workload (the harness logs in as root)
                if is_root {
                    AOp::Dump
                } else {
                    AOp::UpdateUser { u, name: if rng.chance(1, 2) { Some(rng.pick(&USER_NAMES).to_string()) } else { None }, active: if rng.chance(1, 2) { Some(rng.chance(1, 2)) } else { None } }
                }
            }
            5..=6 => AOp::DeleteUser { u: pick_user_ref(w, rng) },
            7 => AOp::UpdatePermissions { u: pick_user_ref(w, rng), perms: rng.below(5) as u8 },
            _ => AOp::ChangePassword { u: pick_user_ref(w, rng), correct: rng.chance(2, 3) },
        },
        6 => {
            if rng.chance(2, 3) {
                AOp::CreateToken { name: rng.pick(&TOKEN_NAMES).to_string(), expiry_s: *rng.pick(&[0u64, 3600, 86400]) }
            } else {
                AOp::DeleteToken { name: rng.pick(&TOKEN_NAMES).to_string() }
            }
        }
        7 => {
            let s = pick_stream_ref(w, rng);
            let t = pick_topic_ref(w, rng, &s);
            AOp::Send { s, t, part: rng.range(1, 3) as u32, n: rng.range(1, 4) as u32 }
        }
        8 => AOp::Restart,
        9 => AOp::Dump,
        10 => {
            // names of users that exist or existed
            let name = rng.pick(&["iggy", USER_NAMES[0], USER_NAMES[1], USER_NAMES[2], USER_NAMES[3], USER_NAMES[4]]).to_string();
            match rng.below(10) {
                0..=4 => AOp::TryLogin { name, cand: rng.below(4) as u8, http: rng.chance(1, 4) },
                5..=6 => AOp::TryToken { idx: rng.below(64) as usize },
                7..=8 => AOp::UserToken { u: pick_user_ref(w, rng), name: rng.pick(&TOKEN_NAMES).to_string(), expiry_s: *rng.pick(&[0u64, 60, 3600, 86400]) },
                _ => AOp::DeleteUserToken { u: pick_user_ref(w, rng), name: rng.pick(&TOKEN_NAMES).to_string() },
            }
        }
        11 => {
            if rng.chance(2, 3) {
                AOp::AdvanceClock { s: *rng.pick(&[30u64, 45, 1800, 2400, 50_000, 90_000]) }
            } else {
                AOp::CleanTokens
            }
        }
        _ => match rng.below(3) {
            0 => AOp::ScanSecrets,
            1 => AOp::LogoutCheck,
            _ => AOp::HttpAuthCheck,
        },
    }
}
