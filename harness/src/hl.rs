//! C20: the SDK's high-level producer and consumer deliver every message once, in partition order.
//!
//! The real `IggyProducer` / `IggyConsumer` (built through `IggyClient`) run against the real server. Every
//! request they put on the wire is observed by a tap in the transport (fetches with the offsets they returned,
//! offset commits), every message the consumer yields is logged by the driver into the same sequence, and the
//! server's stored offsets are read at quiescent points. Oracles run over that event log and the final logs.

use crate::checks::Ctx;
use crate::inst::{scratch_root, sleep_ms, take_server_panics, CacheMode, ServerInstance, StorageCfg};
use crate::raw::{RawClient, Tap};
use crate::report::{ShardReport, Violation};
use crate::rng::Rng;
use crate::world::{timed, Stop, R};
use async_broadcast::Receiver;
use async_trait::async_trait;
use bytes::Bytes;
use iggy::binary::binary_client::BinaryClient;
use iggy::binary::{BinaryTransport, ClientState};
use iggy::command::Command;
use iggy::diagnostic::DiagnosticEvent;
use iggy::error::IggyError;
use iggy::tcp::client::TcpClient;
use iggy::tcp::config::{TcpClientConfig, TcpClientReconnectionConfig};
use futures_util::StreamExt;
use iggy::client::*;
use iggy::clients::client::IggyClient;
use iggy::clients::consumer::{AutoCommit, AutoCommitAfter, AutoCommitWhen, IggyConsumer, ReceivedMessage};
use iggy::consumer_ext::{IggyConsumerMessageExt, MessageConsumer};
use iggy::clients::producer::IggyProducer;
use iggy::compression::compression_algorithm::CompressionAlgorithm;
use iggy::consumer::Consumer;
use iggy::identifier::Identifier;
use iggy::messages::poll_messages::PollingStrategy;
use iggy::messages::send_messages::{Message, Partitioning};
use iggy::utils::crypto::{Aes256GcmEncryptor, EncryptorKind};
use iggy::utils::duration::IggyDuration;
use iggy::utils::expiry::IggyExpiry;
use iggy::utils::topic_size::MaxTopicSize;
use serde_json::{json, Value};
use std::collections::{BTreeMap, BTreeSet};
use std::sync::atomic::{AtomicBool, AtomicU64, Ordering};
use std::sync::{Arc, Mutex};
use std::time::Duration;

#[derive(Debug, Clone)]
enum Ev {
    /// a poll answered with messages (wire)
    Fetch { conn: u32, part: u32, first: u64, last: u64, n: usize, auto: bool },
    /// a store_consumer_offset request (wire)
    Commit { conn: u32, part: u32, off: u64, ok: bool },
    /// a message handed to the application
    Yield { conn: u32, inc: u32, part: u32, off: u64, tag: String },
    /// consumer dropped and re-created; stored offsets read at quiescence just before
    Recreate { conn: u32, inc: u32, stored: BTreeMap<u32, Option<u64>> },
}

#[derive(Default)]
struct Log {
    evs: Mutex<Vec<Ev>>,
    /// every answered poll request (with or without messages): the logical clock for "the consumer is idle"
    polls: AtomicU64,
    /// send_messages requests refused by the injected fault (the producer has to retry them)
    refused_sends: AtomicU64,
}
impl Log {
    fn push(&self, e: Ev) {
        self.evs.lock().unwrap().push(e);
    }
}

fn tap_for(conn: u32, log: Arc<Log>) -> Tap {
    Tap(Arc::new(move |code: u32, req: &Bytes, resp: Result<&[u8], u32>| match code {
        100 => {
            log.polls.fetch_add(1, Ordering::SeqCst);
            if let Ok(body) = resp {
                if body.len() >= 16 && req.len() >= 18 {
                    let part = u32::from_le_bytes(body[0..4].try_into().unwrap());
                    let n = u32::from_le_bytes(body[12..16].try_into().unwrap()) as usize;
                    let auto = req[req.len() - 1] == 1;
                    let mut pos = 16;
                    let mut first = None;
                    let mut last = 0;
                    let mut seen = 0;
                    while pos + 41 <= body.len() {
                        let off = u64::from_le_bytes(body[pos..pos + 8].try_into().unwrap());
                        let hl = u32::from_le_bytes(body[pos + 37..pos + 41].try_into().unwrap()) as usize;
                        let pp = pos + 41 + hl;
                        if pp + 4 > body.len() {
                            break;
                        }
                        let pl = u32::from_le_bytes(body[pp..pp + 4].try_into().unwrap()) as usize;
                        pos = pp + 4 + pl;
                        first.get_or_insert(off);
                        last = off;
                        seen += 1;
                    }
                    if let Some(first) = first {
                        log.push(Ev::Fetch { conn, part, first, last, n: seen.max(n.min(seen)), auto });
                    }
                }
            }
        }
        9101 => {
            log.refused_sends.fetch_add(1, Ordering::SeqCst);
        }
        121 => {
            if req.len() >= 12 {
                let part = u32::from_le_bytes(req[req.len() - 12..req.len() - 8].try_into().unwrap());
                let off = u64::from_le_bytes(req[req.len() - 8..].try_into().unwrap());
                log.push(Ev::Commit { conn, part, off, ok: resp.is_ok() });
            }
        }
        _ => {
            if let Err(status) = resp {
                if std::env::var("VERIF_TRACE").is_ok() {
                    eprintln!("conn {conn}: command {code} ({} bytes) -> status {status}", req.len());
                }
            }
        }
    }))
}

#[derive(Debug, Clone, Copy, PartialEq)]
enum Strat {
    Next,
    Offset0,
    First,
    Last,
}

#[derive(Debug, Clone, Copy, PartialEq)]
enum Mode {
    Disabled,
    Polling,
    All,
    Each,
    Nth(u32),
    Interval,
    IntervalOrPolling,
    IntervalOrEach,
    /// the `After` modes only work through `IggyConsumerMessageExt::consume_messages`
    AfterEach,
    AfterAll,
    AfterNth(u32),
}

impl Mode {
    fn is_after(self) -> bool {
        matches!(self, Mode::AfterEach | Mode::AfterAll | Mode::AfterNth(_))
    }
    fn to_sdk(self, iv: IggyDuration) -> AutoCommit {
        match self {
            Mode::Disabled => AutoCommit::Disabled,
            Mode::Polling => AutoCommit::When(AutoCommitWhen::PollingMessages),
            Mode::All => AutoCommit::When(AutoCommitWhen::ConsumingAllMessages),
            Mode::Each => AutoCommit::When(AutoCommitWhen::ConsumingEachMessage),
            Mode::Nth(n) => AutoCommit::When(AutoCommitWhen::ConsumingEveryNthMessage(n)),
            Mode::Interval => AutoCommit::Interval(iv),
            Mode::IntervalOrPolling => AutoCommit::IntervalOrWhen(iv, AutoCommitWhen::PollingMessages),
            Mode::IntervalOrEach => AutoCommit::IntervalOrWhen(iv, AutoCommitWhen::ConsumingEachMessage),
            Mode::AfterEach => AutoCommit::After(AutoCommitAfter::ConsumingEachMessage),
            Mode::AfterAll => AutoCommit::After(AutoCommitAfter::ConsumingAllMessages),
            Mode::AfterNth(n) => AutoCommit::After(AutoCommitAfter::ConsumingEveryNthMessage(n)),
        }
    }
    /// modes whose commits follow consumption (never ahead of the last yielded message)
    fn commits_on_consumption(self) -> bool {
        !matches!(self, Mode::Polling | Mode::IntervalOrPolling)
    }
}

#[derive(Debug, Clone)]
struct Settings {
    partitions: u32,
    // producer
    p_batch: Option<u32>,
    p_interval_ms: Option<u64>,
    p_partitioning: u8, // 0 none (balanced default), 1 balanced, 2 partition id, 3 key
    p_partition: u32,
    client_encryption: bool,
    p_fail_every: u32,
    calls: usize,
    // consumer
    group: bool,
    members: u32,
    c_partition: u32,
    strat: Strat,
    c_batch: u32,
    mode: Mode,
    poll_interval_ms: Option<u64>,
    names_numeric: bool,
    manual_every: u64,
}

impl Settings {
    fn random(r: &mut Rng) -> Settings {
        let partitions = *r.pick(&[1u32, 1, 2, 3]);
        let group = r.chance(1, 2);
        Settings {
            partitions,
            p_batch: *r.pick(&[None, Some(1u32), Some(2), Some(3), Some(10), Some(1000)]),
            p_interval_ms: *r.pick(&[None, None, Some(1u64), Some(3)]),
            p_partitioning: r.below(4) as u8,
            p_partition: 1 + r.below(partitions as u64) as u32,
            client_encryption: r.chance(1, 4),
            p_fail_every: *r.pick(&[0u32, 0, 0, 2, 3]),
            calls: r.range(4, 14) as usize,
            group,
            members: if group && r.chance(1, 3) { 2 } else { 1 },
            c_partition: 1 + r.below(partitions as u64) as u32,
            strat: *r.pick(&[Strat::Next, Strat::Next, Strat::Next, Strat::Next, Strat::Next, Strat::Offset0, Strat::Offset0, Strat::Offset0, Strat::First, Strat::Last]),
            c_batch: *r.pick(&[1u32, 2, 3, 5, 10, 100]),
            mode: *r.pick(&[Mode::Disabled, Mode::Polling, Mode::All, Mode::Each, Mode::Nth(2), Mode::Nth(3), Mode::Interval, Mode::IntervalOrPolling, Mode::IntervalOrEach, Mode::AfterEach, Mode::AfterAll, Mode::AfterNth(2)]),
            poll_interval_ms: *r.pick(&[Some(1u64), Some(2), None]),
            names_numeric: r.chance(1, 2),
            manual_every: 1,
        }
    }
    fn finish(mut self, r: &mut Rng) -> Settings {
        self.manual_every = r.range(1, (self.c_batch as u64).min(4));
        self
    }
    fn class(&self) -> String {
        format!(
            "{}p/{}{}/{:?}/{:?}/b{}/prod[b{:?},i{:?},k{},f{}]{}",
            self.partitions,
            if self.group { "group" } else { "single" },
            self.members,
            self.strat,
            self.mode,
            self.c_batch,
            self.p_batch,
            self.p_interval_ms,
            self.p_partitioning,
            self.p_fail_every,
            if self.client_encryption { "/enc" } else { "" }
        )
    }
}

/// where a produced message was addressed
#[derive(Debug, Clone)]
struct Sent {
    tag: String,
    call: usize,
    stream: u32,
    topic: u32,
    /// Some(p): must be partition p
    partition: Option<u32>,
    /// messages with the same key group must share a partition
    key: Option<u32>,
}

fn hv(hist: u64, set: &Settings, clause: &str, trig: &str, d: Value, evs: &[Ev]) -> Stop {
    let tail: Vec<String> = evs.iter().rev().take(40).rev().map(|e| format!("{e:?}")).collect();
    // a group member keeps ONE offset cursor for all the partitions the server rotates it through: with the offset strategy and more than
    // one partition the cursor advanced by one partition's batch is applied to the next partition
    let suffix = if clause == "consumer-yields" && set.group && set.partitions > 1 && set.strat == Strat::Offset0 && (trig.starts_with("gap") || trig.starts_with("never-yielded")) { "/group-offset-strategy-one-cursor-for-all-partitions" } else { "" };
    Stop::Violation(Violation {
        property: "C20".into(),
        clause: clause.into(),
        signature: format!("C20:{clause}/{trig}{suffix}"),
        witness: json!({"history": hist, "settings": format!("{set:?}"), "first_bad": d, "last_events": tail, "server_panics": take_server_panics()}),
    })
}

/// The application's handler for `consume_messages`: logs the message as yielded, then returns (the SDK commits after that).
struct Recorder {
    log: Arc<Log>,
    conn: u32,
    inc: u32,
    count: AtomicU64,
}

impl MessageConsumer for Recorder {
    async fn consume(&self, rm: ReceivedMessage) -> Result<(), IggyError> {
        let tag = crate::world::head(&rm.message.payload);
        self.log.push(Ev::Yield { conn: self.conn, inc: self.inc, part: rm.partition_id, off: rm.message.offset, tag });
        self.count.fetch_add(1, Ordering::SeqCst);
        Ok(())
    }
}

struct Member {
    /// the consumer's last `next()` was abandoned by the driver (timeout): one of its poll requests may still be in flight
    pending_poll: bool,
    conn: u32,
    raw_tap_client: IggyClient,
    consumer: Option<IggyConsumer>,
    inc: u32,
}

const IV_MS: u64 = 10;
const IDLE_MS: u64 = 350;
const IDLE_POLLS: u64 = 40;

pub struct Outcome {
    pub refused_sends: u64,
    pub class: String,
    pub yields: usize,
    pub produced: usize,
    pub recreations: u32,
    pub commits: usize,
    pub fetches: usize,
    pub sample: Value,
}

/// The SDK's own TCP client with an observer on its request/response boundary.
#[derive(Debug)]
struct Tapped {
    inner: TcpClient,
    tap: Tap,
    /// fault injection for the producer's retry path: every k-th send_messages request is refused before it is written (0 = never)
    fail_every: u32,
    sends: AtomicU64,
}

#[async_trait]
impl BinaryTransport for Tapped {
    async fn get_state(&self) -> ClientState {
        self.inner.get_state().await
    }
    async fn set_state(&self, state: ClientState) {
        self.inner.set_state(state).await
    }
    async fn publish_event(&self, event: DiagnosticEvent) {
        self.inner.publish_event(event).await
    }
    async fn send_with_response<T: Command>(&self, command: &T) -> Result<Bytes, IggyError> {
        command.validate()?;
        self.send_raw_with_response(command.code(), command.to_bytes()).await
    }
    async fn send_raw_with_response(&self, code: u32, payload: Bytes) -> Result<Bytes, IggyError> {
        if code == 101 && self.fail_every > 0 {
            let n = self.sends.fetch_add(1, Ordering::SeqCst) + 1;
            if n % self.fail_every as u64 == 0 {
                // nothing was written: the request never reached the server
                (self.tap.0)(9101, &payload, Err(0));
                return Err(IggyError::CannotSendMessagesDueToClientDisconnection);
            }
        }
        let r = self.inner.send_raw_with_response(code, payload.clone()).await;
        match &r {
            Ok(b) => (self.tap.0)(code, &payload, Ok(&b[..])),
            Err(e) => (self.tap.0)(code, &payload, Err(e.as_code())),
        }
        r
    }
    fn get_heartbeat_interval(&self) -> IggyDuration {
        self.inner.get_heartbeat_interval()
    }
}

impl BinaryClient for Tapped {}

#[async_trait]
impl Client for Tapped {
    async fn connect(&self) -> Result<(), IggyError> {
        Client::connect(&self.inner).await
    }
    async fn disconnect(&self) -> Result<(), IggyError> {
        Client::disconnect(&self.inner).await
    }
    async fn shutdown(&self) -> Result<(), IggyError> {
        Client::shutdown(&self.inner).await
    }
    async fn subscribe_events(&self) -> Receiver<DiagnosticEvent> {
        self.inner.subscribe_events().await
    }
}

async fn sdk_client(inst: &ServerInstance, conn: u32, log: &Arc<Log>, enc: Option<Arc<EncryptorKind>>) -> R<IggyClient> {
    sdk_client_f(inst, conn, log, enc, 0).await
}

async fn sdk_client_f(inst: &ServerInstance, conn: u32, log: &Arc<Log>, enc: Option<Arc<EncryptorKind>>, fail_every: u32) -> R<IggyClient> {
    let config = TcpClientConfig {
        server_address: inst.tcp_addr.to_string(),
        auto_login: AutoLogin::Enabled(Credentials::UsernamePassword("iggy".into(), "iggy".into())),
        reconnection: TcpClientReconnectionConfig { enabled: false, ..Default::default() },
        nodelay: true,
        heartbeat_interval: IggyDuration::from(3_600_000_000u64),
        ..Default::default()
    };
    let inner = TcpClient::create(Arc::new(config)).map_err(|e| Stop::Inconclusive(format!("tcp client: {e}")))?;
    let tapped = Tapped { inner, tap: tap_for(conn, log.clone()), fail_every, sends: AtomicU64::new(0) };
    timed("connect", Client::connect(&tapped)).await?.map_err(|e| Stop::Inconclusive(format!("connect: {e}")))?;
    Ok(IggyClient::create(Box::new(tapped), None, enc))
}

async fn build_consumer(set: &Settings, client: &IggyClient, stream: &str, topic: &str) -> R<IggyConsumer> {
    let name = if set.names_numeric { "77" } else { "workers" };
    let b = if set.group { client.consumer_group(name, stream, topic) } else { client.consumer(name, stream, topic, set.c_partition) };
    let b = b.map_err(|e| Stop::Inconclusive(format!("consumer builder: {e}")))?;
    let strat = match set.strat {
        Strat::Next => PollingStrategy::next(),
        Strat::Offset0 => PollingStrategy::offset(0),
        Strat::First => PollingStrategy::first(),
        Strat::Last => PollingStrategy::last(),
    };
    let mut b = b.polling_strategy(strat).batch_size(set.c_batch).auto_commit(set.mode.to_sdk(IggyDuration::from(IV_MS * 1000))).polling_retry_interval(IggyDuration::from(20_000u64));
    b = match set.poll_interval_ms {
        Some(ms) => b.poll_interval(IggyDuration::from(ms * 1000)),
        None => b.without_poll_interval(),
    };
    let mut c = b.build();
    timed("consumer init", c.init()).await?.map_err(|e| {
        if std::env::var("VERIF_TRACE").is_ok() {
            eprintln!("consumer init failed: {e} with {set:?}");
        }
        Stop::Inconclusive(format!("consumer init: {e}"))
    })?;
    Ok(c)
}

/// Set when a consumer was dropped while one of its poll requests was still in flight and then re-created on the same
/// client: the SDK's TCP client is not cancellation-safe (the abandoned request's response is read by the next request),
/// so from that point every answer on that connection is shifted by one. Everything observed afterwards is attributed to that.
pub const TAINT_SIG: &str = "C20:resume/same-client-after-drop-mid-poll";

fn retag(hseed: u64, set_desc: &str, original: Value) -> Stop {
    Stop::Violation(Violation {
        property: "C20".into(),
        clause: "resume".into(),
        signature: TAINT_SIG.into(),
        witness: json!({"history": hseed, "settings": set_desc, "first_bad": {"what": "consumer dropped while its poll request was in flight, then re-created on the same IggyClient: the connection answers are out of step from here on", "observed": original}}),
    })
}

pub async fn history(hseed: u64, cache: CacheMode, taint: Arc<AtomicBool>) -> R<Outcome> {
    let mut r = Rng::new(hseed);
    let set = Settings::random(&mut r).finish(&mut r);
    let mut cfg = StorageCfg::random(&mut r);
    cfg.no_wait = false;
    cfg.http = false;
    cfg.encryption = false;
    cfg.dedup = false;
    cfg.default_max_topic_size = 0;
    cfg.default_expiry_us = 0;
    let dir = scratch_root().join(format!("h{:016x}", hseed));
    let inst = ServerInstance::start(&dir, &cfg, cache).await.map_err(|e| Stop::Inconclusive(format!("{e:?}")))?;
    let res = history_inner(hseed, &mut r, &set, &inst, &taint).await;
    let _ = inst.stop(false).await;
    let _ = std::fs::remove_dir_all(&dir);
    if taint.load(Ordering::SeqCst) {
        return match res {
            Ok(o) => Ok(o),
            Err(Stop::Violation(v)) => Err(retag(hseed, &format!("{set:?}"), json!({"signature": v.signature, "detail": v.witness["first_bad"]}))),
            Err(Stop::Inconclusive(x)) => Err(retag(hseed, &format!("{set:?}"), json!({"error": x}))),
            Err(Stop::Stall(x)) => Err(retag(hseed, &format!("{set:?}"), json!({"stalled": x}))),
        };
    }
    res
}

async fn history_inner(hseed: u64, r: &mut Rng, set: &Settings, inst: &ServerInstance, taint: &Arc<AtomicBool>) -> R<Outcome> {
    let log = Arc::new(Log::default());
    let admin = RawClient::connect(inst.tcp_addr).await.map_err(Stop::Inconclusive)?;
    timed("login", admin.login_user("iggy", "iggy")).await?.map_err(|e| Stop::Inconclusive(e.to_string()))?;
    // streams "s1" (1) and "s2" (2); topics "t1" (1) and "t2" (2) in both
    for (sid, sname) in [(1u32, "s1"), (2, "s2")] {
        timed("create_stream", admin.create_stream(sname, Some(sid))).await?.map_err(|e| Stop::Inconclusive(e.to_string()))?;
        for (tid, tname) in [(1u32, "t1"), (2, "t2")] {
            timed("create_topic", admin.create_topic(&Identifier::numeric(sid).unwrap(), tname, set.partitions, CompressionAlgorithm::None, None, Some(tid), IggyExpiry::NeverExpire, MaxTopicSize::Unlimited))
                .await?
                .map_err(|e| Stop::Inconclusive(e.to_string()))?;
        }
    }
    let enc = if set.client_encryption { Some(Arc::new(EncryptorKind::Aes256Gcm(Aes256GcmEncryptor::new(&[7u8; 32]).map_err(|e| Stop::Inconclusive(e.to_string()))?))) } else { None };

    // ---------------------------------------------------------------- producer
    let pclient = sdk_client_f(inst, 0, &log, enc.clone(), set.p_fail_every).await?;
    let (ps, pt) = if set.names_numeric { ("1", "1") } else { ("s1", "t1") };
    let mut pb = pclient.producer(ps, pt).map_err(|e| Stop::Inconclusive(e.to_string()))?;
    pb = match set.p_batch {
        Some(b) => pb.batch_size(b),
        None => pb.without_batch_size(),
    };
    pb = match set.p_interval_ms {
        Some(ms) => pb.send_interval(IggyDuration::from(ms * 1000)),
        None => pb.without_send_interval(),
    };
    pb = match set.p_partitioning {
        0 => pb.without_partitioning(),
        1 => pb.partitioning(Partitioning::balanced()),
        2 => pb.partitioning(Partitioning::partition_id(set.p_partition)),
        _ => pb.partitioning(Partitioning::messages_key_u32(4242)),
    };
    if set.p_fail_every > 0 {
        // never two refusals in a row, three retries allowed: every batch must still arrive, once
        pb = pb.send_retries(Some(3), Some(IggyDuration::from(1000u64)));
    }
    let mut producer: IggyProducer = pb.build();
    timed("producer init", producer.init()).await?.map_err(|e| Stop::Inconclusive(format!("producer init: {e}")))?;
    let mut sent: Vec<Sent> = vec![];
    let mut seq = 0u64;
    let default_route = |set: &Settings| -> (Option<u32>, Option<u32>) {
        match set.p_partitioning {
            2 => (Some(set.p_partition), None),
            3 => (None, Some(4242)),
            _ => (None, None),
        }
    };
    let mut calls_desc: Vec<String> = vec![];
    for call in 0..set.calls {
        let n = *r.pick(&[1usize, 1, 2, 3, 5, 8, 17]);
        let mut msgs = vec![];
        let mut tags = vec![];
        for _ in 0..n {
            seq += 1;
            let tag = format!("{:x}/m{}", hseed & 0xffff_ffff, seq);
            tags.push(tag.clone());
            msgs.push(Message::new(None, Bytes::from(format!("{tag}|{}", "x".repeat(r.below(40) as usize))), None));
        }
        let kind = r.below(8);
        let (res, stream, topic, route, desc) = match kind {
            0 | 1 | 2 => (timed("send", producer.send(msgs)).await?, 1, 1, default_route(set), "send"),
            3 if n == 1 => (timed("send_one", producer.send_one(msgs.pop().unwrap())).await?, 1, 1, default_route(set), "send_one"),
            3 | 4 => {
                let p = 1 + r.below(set.partitions as u64) as u32;
                (timed("send_with_partitioning", producer.send_with_partitioning(msgs, Some(Arc::new(Partitioning::partition_id(p))))).await?, 1, 1, (Some(p), None), "send_with_partitioning(partition)")
            }
            5 => {
                let k = 9000 + r.below(3) as u32;
                (timed("send_with_partitioning", producer.send_with_partitioning(msgs, Some(Arc::new(Partitioning::messages_key_u32(k))))).await?, 1, 1, (None, Some(k)), "send_with_partitioning(key)")
            }
            _ => {
                // another stream and/or topic
                let (s, t) = *r.pick(&[(1u32, 2u32), (2, 1), (2, 2)]);
                let p = 1 + r.below(set.partitions as u64) as u32;
                let explicit = r.chance(1, 2);
                let part = if explicit { Some(Arc::new(Partitioning::partition_id(p))) } else { None };
                let route = if explicit { (Some(p), None) } else { default_route(set) };
                (timed("send_to", producer.send_to(Arc::new(Identifier::numeric(s).unwrap()), Arc::new(Identifier::numeric(t).unwrap()), msgs, part)).await?, s, t, route, "send_to")
            }
        };
        calls_desc.push(format!("#{call} {desc} n={n} -> {stream}/{topic} {route:?}"));
        if let Err(e) = res {
            return Err(hv(hseed, set, "producer-delivers", &format!("send-error/{desc}"), json!({"call": calls_desc.last(), "error": e.to_string()}), &[]));
        }
        for tag in tags {
            sent.push(Sent { tag, call, stream, topic, partition: route.0, key: route.1 });
        }
    }
    // scan every partition of every topic
    let who = Consumer::new(Identifier::numeric(9999).unwrap());
    let mut found: BTreeMap<String, Vec<(u32, u32, u32, u64)>> = BTreeMap::new();
    let mut logs: BTreeMap<(u32, u32, u32), Vec<String>> = BTreeMap::new();
    for s in 1..=2u32 {
        for t in 1..=2u32 {
            for p in 1..=set.partitions {
                let pm = timed("scan", admin.poll_messages(&Identifier::numeric(s).unwrap(), &Identifier::numeric(t).unwrap(), Some(p), &who, &PollingStrategy::offset(0), 100_000, false)).await?.map_err(|e| Stop::Inconclusive(format!("scan: {e}")))?;
                let mut l = vec![];
                for m in pm.messages {
                    let payload = match &enc {
                        Some(e) => match e.decrypt(&m.payload) {
                            Ok(p) => p,
                            Err(_) => m.payload.to_vec(),
                        },
                        None => m.payload.to_vec(),
                    };
                    let tag = crate::world::head(&payload);
                    found.entry(tag.clone()).or_default().push((s, t, p, m.offset));
                    l.push(tag);
                }
                logs.insert((s, t, p), l);
            }
        }
    }
    let mut key_part: BTreeMap<u32, u32> = BTreeMap::new();
    let mut call_part: BTreeMap<usize, (u32, u64)> = BTreeMap::new();
    for m in &sent {
        let at = found.get(&m.tag).cloned().unwrap_or_default();
        if at.len() != 1 {
            let trig = if at.is_empty() { "lost" } else { "duplicated" };
            return Err(hv(hseed, set, "producer-delivers", trig, json!({"message": m.tag, "call": calls_desc[m.call], "found_at": at}), &[]));
        }
        let (s, t, p, off) = at[0];
        if (s, t) != (m.stream, m.topic) {
            return Err(hv(hseed, set, "producer-delivers", "wrong-stream-or-topic", json!({"message": m.tag, "call": calls_desc[m.call], "addressed_to": [m.stream, m.topic], "found_in": [s, t, p]}), &[]));
        }
        if let Some(want) = m.partition {
            if p != want {
                return Err(hv(hseed, set, "producer-delivers", "wrong-partition", json!({"message": m.tag, "call": calls_desc[m.call], "addressed_partition": want, "found_in": p}), &[]));
            }
        }
        if let Some(k) = m.key {
            let e = key_part.entry(k).or_insert(p);
            if *e != p {
                return Err(hv(hseed, set, "producer-delivers", "key-split", json!({"message": m.tag, "key": k, "partitions": [*e, p]}), &[]));
            }
        }
        // messages of one call in one partition keep their order, unless the producer splits the call into chunks that are routed separately (balanced)
        if let Some((cp, coff)) = call_part.get(&m.call) {
            if *cp == p && off <= *coff {
                return Err(hv(hseed, set, "producer-delivers", "order-within-call", json!({"message": m.tag, "call": calls_desc[m.call], "offset": off, "previous_offset": coff}), &[]));
            }
        }
        call_part.insert(m.call, (p, off));
    }
    drop(producer);

    // ---------------------------------------------------------------- consumers of stream 1 / topic 1
    let (cs, ct) = if set.names_numeric { ("1", "1") } else { ("s1", "t1") };
    let my_parts: Vec<u32> = if set.group { (1..=set.partitions).collect() } else { vec![set.c_partition] };
    let expected: BTreeMap<u32, Vec<String>> = my_parts.iter().map(|p| (*p, logs.get(&(1, 1, *p)).cloned().unwrap_or_default())).collect();
    let total: usize = expected.values().map(|v| v.len()).sum();
    let mut members: Vec<Member> = vec![];
    for m in 0..set.members {
        let c = sdk_client(inst, 1 + m, &log, enc.clone()).await?;
        let consumer = build_consumer(set, &c, cs, ct).await?;
        members.push(Member { pending_poll: false, conn: 1 + m, raw_tap_client: c, consumer: Some(consumer), inc: 0 });
    }
    let consumer_id = if set.group { Consumer::group(if set.names_numeric { Identifier::numeric(77).unwrap() } else { Identifier::named("workers").unwrap() }) } else { Consumer::new(if set.names_numeric { Identifier::numeric(77).unwrap() } else { Identifier::named("workers").unwrap() }) };
    let one = Identifier::numeric(1).unwrap();
    let mut recreations = 0u32;
    let mut yields = 0usize;
    let mut since_manual: BTreeMap<u32, u64> = BTreeMap::new();
    let phases = r.range(2, 6);
    let mut stored_at_recreate: Vec<(u32, u32, BTreeMap<u32, Option<u64>>)> = vec![];
    for phase in 0..=phases {
        let last_phase = phase == phases;
        let mi = r.below(members.len() as u64) as usize;
        let budget = if last_phase { usize::MAX } else { r.range(0, (total as u64 / 2).max(3)) as usize };
        // consume
        let order: Vec<usize> = if last_phase { (0..members.len()).collect() } else { vec![mi] };
        if set.mode.is_after() {
            // consume_messages takes the consumer by value and drops it when told to stop: every phase is one incarnation on its own client
            for idx in order.clone() {
                let m = &mut members[idx];
                let cons = m.consumer.take().unwrap();
                let rec: &'static Recorder = Box::leak(Box::new(Recorder { log: log.clone(), conn: m.conn, inc: m.inc, count: AtomicU64::new(0) }));
                let (stop_tx, stop_rx) = tokio::sync::oneshot::channel();
                let task = tokio::spawn(async move { cons.consume_messages(rec, stop_rx).await });
                let mut polls_at_yield = log.polls.load(Ordering::SeqCst);
                let mut seen = 0u64;
                let mut idle_rounds = 0u32;
                loop {
                    sleep_ms(5).await;
                    let now = rec.count.load(Ordering::SeqCst);
                    if now != seen {
                        seen = now;
                        polls_at_yield = log.polls.load(Ordering::SeqCst);
                        idle_rounds = 0;
                    }
                    if (now as usize) >= budget || task.is_finished() {
                        break;
                    }
                    if log.polls.load(Ordering::SeqCst).saturating_sub(polls_at_yield) >= IDLE_POLLS {
                        break;
                    }
                    idle_rounds += 1;
                    if idle_rounds > 6000 {
                        return Err(Stop::Inconclusive("consume_messages: consumer answered too few polls to be judged idle".into()));
                    }
                }
                yields += seen as usize;
                let _ = stop_tx.send(());
                match timed("consume_messages stop", task).await? {
                    Ok(Ok(())) => {}
                    Ok(Err(e)) => {
                        let evs = log.evs.lock().unwrap().clone();
                        return Err(hv(hseed, set, "consumer-yields", "error-item", json!({"consume_messages_returned": e.to_string(), "member": m.conn}), &evs));
                    }
                    Err(_) => return Err(Stop::Inconclusive("consume_messages task panicked".into())),
                }
                // the consumer is gone (possibly with a poll in flight): the application closes that client
                let _ = timed("client shutdown", m.raw_tap_client.shutdown()).await?;
                if last_phase {
                    // final drain: the member leaves for good, the next one inherits its partitions
                    continue;
                }
                quiesce(&admin, &log).await?;
                let mut stored = BTreeMap::new();
                for p in &my_parts {
                    let o = timed("get_offset", admin.get_consumer_offset(&consumer_id, &one, &one, Some(*p))).await?;
                    stored.insert(*p, o.ok().flatten().map(|x| x.stored_offset));
                }
                m.raw_tap_client = sdk_client(inst, m.conn, &log, enc.clone()).await?;
                m.inc += 1;
                recreations += 1;
                log.push(Ev::Recreate { conn: m.conn, inc: m.inc, stored: stored.clone() });
                stored_at_recreate.push((m.conn, m.inc, stored));
                let c = build_consumer(set, &m.raw_tap_client, cs, ct).await?;
                m.consumer = Some(c);
            }
            if last_phase {
                break;
            }
            continue;
        }
        for idx in order {
            let mut got = 0usize;
            let mut polls_at_yield = log.polls.load(Ordering::SeqCst);
            let mut idle_rounds = 0u32;
            let m = &mut members[idx];
            let (conn, inc) = (m.conn, m.inc);
            let cons = m.consumer.as_mut().unwrap();
            while got < budget {
                let nx = tokio::time::timeout(Duration::from_millis(IDLE_MS), cons.next()).await;
                let Ok(item) = nx else {
                    m.pending_poll = true;
                    if last_phase {
                        // the final drain decides completeness: "idle" is judged in polls answered since the last yield, not in wall time
                        if log.polls.load(Ordering::SeqCst).saturating_sub(polls_at_yield) >= IDLE_POLLS {
                            break;
                        }
                        idle_rounds += 1;
                        if idle_rounds > 150 {
                            return Err(Stop::Inconclusive("final drain: consumer answered too few polls to be judged idle".into()));
                        }
                        continue;
                    }
                    break;
                };
                polls_at_yield = log.polls.load(Ordering::SeqCst);
                idle_rounds = 0;
                m.pending_poll = false;
                match item {
                    Some(Ok(rm)) => {
                        let tag = crate::world::head(&rm.message.payload);
                        log.push(Ev::Yield { conn, inc, part: rm.partition_id, off: rm.message.offset, tag });
                        got += 1;
                        yields += 1;
                        if set.mode == Mode::Disabled {
                            // the application's own commit policy: per partition, never a gap longer than one batch (the next strategy resumes from the stored offset)
                            let sm = since_manual.entry(rm.partition_id).or_insert(0);
                            *sm += 1;
                            if *sm >= set.manual_every {
                                *sm = 0;
                                let _ = timed("store_offset", cons.store_offset(rm.message.offset, Some(rm.partition_id))).await?;
                            }
                        }
                    }
                    Some(Err(e)) => {
                        let evs = log.evs.lock().unwrap().clone();
                        return Err(hv(hseed, set, "consumer-yields", "error-item", json!({"error": e.to_string(), "member": conn}), &evs));
                    }
                    None => break,
                }
                if yields > total * 4 + 50 {
                    break;
                }
            }
        }
        if last_phase {
            break;
        }
        // drop one member's consumer, let its queued commits land, read the stored offsets, re-create it with the same identity
        if r.chance(2, 3) {
            let poll_in_flight = members[mi].pending_poll;
            let same_client = if poll_in_flight { r.chance(1, 8) } else { r.chance(1, 2) };
            {
                let m = &mut members[mi];
                m.consumer = None; // drop
                m.pending_poll = false;
                if same_client && poll_in_flight {
                    taint.store(true, Ordering::SeqCst);
                }
                if !same_client {
                    // the application closes the old client (the SDK's detached tasks would keep the connection open otherwise)
                    let _ = timed("client shutdown", m.raw_tap_client.shutdown()).await?;
                }
            }
            quiesce(&admin, &log).await?;
            let mut stored = BTreeMap::new();
            for p in &my_parts {
                let o = timed("get_offset", admin.get_consumer_offset(&consumer_id, &one, &one, Some(*p))).await?;
                stored.insert(*p, o.ok().flatten().map(|x| x.stored_offset));
            }
            let m = &mut members[mi];
            if !same_client {
                m.raw_tap_client = sdk_client(inst, m.conn, &log, enc.clone()).await?;
            }
            m.inc += 1;
            recreations += 1;
            log.push(Ev::Recreate { conn: m.conn, inc: m.inc, stored: stored.clone() });
            stored_at_recreate.push((m.conn, m.inc, stored));
            let c = build_consumer(set, &m.raw_tap_client, cs, ct).await?;
            m.consumer = Some(c);
        }
    }
    // final stored offsets
    for m in &mut members {
        m.consumer = None;
    }
    quiesce(&admin, &log).await?;
    let mut final_stored = BTreeMap::new();
    for p in &my_parts {
        let o = timed("get_offset", admin.get_consumer_offset(&consumer_id, &one, &one, Some(*p))).await?;
        final_stored.insert(*p, o.ok().flatten().map(|x| x.stored_offset));
    }
    for m in &mut members {
        m.consumer = None;
    }
    let evs = log.evs.lock().unwrap().clone();
    judge(hseed, set, &evs, &expected, &final_stored, recreations)?;
    let commits = evs.iter().filter(|e| matches!(e, Ev::Commit { .. })).count();
    let fetches = evs.iter().filter(|e| matches!(e, Ev::Fetch { .. })).count();
    let sample = json!({"history": format!("{hseed:016x}"), "settings": set.class(), "producer_calls": calls_desc.iter().take(6).collect::<Vec<_>>(), "produced": sent.len(), "in_consumed_partitions": total,
        "yielded": yields, "fetches": fetches, "commits_on_wire": commits, "recreations": recreations, "final_stored_offsets": format!("{final_stored:?}"),
        "events_excerpt": evs.iter().step_by((evs.len() / 10).max(1)).take(10).map(|e| format!("{e:?}")).collect::<Vec<_>>()});
    Ok(Outcome { refused_sends: log.refused_sends.load(Ordering::SeqCst), class: set.class(), yields, produced: sent.len(), recreations, commits, fetches, sample })
}

/// Waits until no commit has been seen on any tapped connection for a window scaled to the machine's current round-trip time
/// (queued commits of a dropped consumer and the last tick of its interval task have landed).
async fn quiesce(admin: &RawClient, log: &Arc<Log>) -> R<()> {
    let t = std::time::Instant::now();
    for _ in 0..3 {
        let _ = timed("ping", admin.ping()).await?;
    }
    let rtt_ms = (t.elapsed().as_millis() as u64 / 3).max(1);
    let window = (rtt_ms * 30).max(IV_MS * 4 + 20);
    let mut stable = commits_seen(log);
    for _ in 0..60 {
        sleep_ms(window).await;
        let now = commits_seen(log);
        if now == stable {
            return Ok(());
        }
        stable = now;
    }
    Err(Stop::Inconclusive("commits never quiesced".into()))
}

/// distinct (connection, partition, offset) values committed so far: a detached interval task that re-sends the same value for ever does not count as activity
fn commits_seen(log: &Arc<Log>) -> usize {
    let g = log.evs.lock().unwrap();
    let set: BTreeSet<(u32, u32, u64)> = g.iter().filter_map(|e| if let Ev::Commit { conn, part, off, .. } = e { Some((*conn, *part, *off)) } else { None }).collect();
    set.len()
}

fn judge(hseed: u64, set: &Settings, evs: &[Ev], expected: &BTreeMap<u32, Vec<String>>, final_stored: &BTreeMap<u32, Option<u64>>, recreations: u32) -> R<()> {
    // per (conn, inc, part): last yielded offset; per part: everything yielded
    let mut last_y: BTreeMap<(u32, u32, u32), u64> = BTreeMap::new();
    let mut yielded: BTreeMap<u32, BTreeMap<u64, u32>> = BTreeMap::new();
    // per (conn, part): max fetched; per part: max yielded logged so far (any member, any incarnation)
    let mut max_fetched: BTreeMap<u32, u64> = BTreeMap::new();
    let mut any_fetch: BTreeSet<u32> = BTreeSet::new();
    let mut max_yielded: BTreeMap<u32, u64> = BTreeMap::new();
    let mut any_yield: BTreeSet<u32> = BTreeSet::new();
    let mut max_committed: BTreeMap<u32, u64> = BTreeMap::new();
    let mut max_auto_committed: BTreeMap<u32, u64> = BTreeMap::new();
    // resume: (conn) -> stored map awaiting the first yield per partition
    let mut awaiting: BTreeMap<u32, BTreeMap<u32, Option<u64>>> = BTreeMap::new();
    // messages skipped legitimately (fetch-time commits: fetched but not yielded before a drop)
    let mut floor: BTreeMap<u32, u64> = BTreeMap::new();
    let single_identity = set.members == 1;
    for (i, e) in evs.iter().enumerate() {
        match e {
            Ev::Fetch { part, last, auto, .. } => {
                let m = max_fetched.entry(*part).or_insert(0);
                *m = (*m).max(*last);
                any_fetch.insert(*part);
                if *auto {
                    // a poll with auto-commit stores the last fetched offset on the server: a commit, although none is seen on the wire
                    // (kept apart: the interval task's lower "consumed" commits in the polling modes are not judged against it, only its zero is)
                    let mc = max_auto_committed.entry(*part).or_insert(*last);
                    *mc = (*mc).max(*last);
                }
            }
            Ev::Commit { part, off, ok, conn } => {
                if !*ok || *conn == 0 {
                    continue;
                }
                // never beyond what was fetched
                if !any_fetch.contains(part) || *off > max_fetched[part] {
                    return Err(hv(hseed, set, "commit-bound", "beyond-fetched", json!({"partition": part, "committed": off, "max_fetched": max_fetched.get(part), "event_index": i}), &evs[..=i]));
                }
                // a next-strategy consumer never takes its committed offset backwards (that is re-reading acknowledged work after the next re-creation)
                // (with two members only the unmistakable pattern is judged: offset 0 written by an interval task after a higher commit -
                // a member that has just been given the partition has consumed nothing of it yet; other cross-member orders are legitimate)
                let interval_mode = matches!(set.mode, Mode::Interval | Mode::IntervalOrPolling | Mode::IntervalOrEach);
                if set.strat == Strat::Next && (single_identity || (interval_mode && *off == 0)) {
                    let auto_mc = if interval_mode && *off == 0 { max_auto_committed.get(part).copied().unwrap_or(0) } else { 0 };
                    let mc = max_committed.entry(*part).or_insert(*off);
                    if auto_mc > *mc {
                        *mc = auto_mc;
                    }
                    if *off < *mc {
                        let trig = if *off == 0 && interval_mode {
                            "commit-regressed/interval-task-stores-zero-for-partition-not-yet-consumed"
                        } else if matches!(set.mode, Mode::IntervalOrPolling | Mode::IntervalOrEach) {
                            "commit-regressed/interval-and-consumption-committers-race"
                        } else {
                            "commit-regressed"
                        };
                        return Err(hv(hseed, set, "resume", trig, json!({"partition": part, "committed": off, "previously_committed": *mc, "mode": format!("{:?}", set.mode), "event_index": i}), &evs[..=i]));
                    }
                    *mc = *off;
                } else if set.strat == Strat::Next {
                    let mc = max_committed.entry(*part).or_insert(*off);
                    *mc = (*mc).max(*off);
                }
                if set.mode.commits_on_consumption() {
                    // never beyond the last yielded message; the message being handed over right now is logged just after
                    let mut bound = if any_yield.contains(part) { Some(max_yielded[part]) } else { None };
                    if let Some(Ev::Yield { part: p2, off: o2, .. }) = evs[i + 1..].iter().find(|x| matches!(x, Ev::Yield { .. })) {
                        if p2 == part {
                            bound = Some(bound.map_or(*o2, |b| b.max(*o2)));
                        }
                    }
                    if bound.map_or(true, |b| *off > b) {
                        return Err(hv(hseed, set, "commit-bound", "beyond-yielded", json!({"partition": part, "committed": off, "last_yielded": bound, "mode": format!("{:?}", set.mode), "event_index": i}), &evs[..=i]));
                    }
                }
            }
            Ev::Yield { conn, inc, part, off, tag } => {
                // content
                let want = expected.get(part).and_then(|l| l.get(*off as usize));
                if want != Some(tag) {
                    let trig = if expected.contains_key(part) { "content-differs-from-log" } else { "foreign-partition" };
                    return Err(hv(hseed, set, "consumer-yields", trig, json!({"partition": part, "offset": off, "yielded": tag, "log_has": want}), &evs[..=i]));
                }
                // order within an incarnation
                if let Some(prev) = last_y.get(&(*conn, *inc, *part)) {
                    if *off <= *prev {
                        let trig = if *off == *prev { "duplicate-in-incarnation" } else { "out-of-order" };
                        return Err(hv(hseed, set, "consumer-yields", trig, json!({"partition": part, "offset": off, "previous": prev, "member": conn, "incarnation": inc}), &evs[..=i]));
                    }
                    // (with two members a partition can go to the other member and come back: only a single consumer must see consecutive offsets)
                    if single_identity && matches!(set.strat, Strat::Next | Strat::Offset0) && *off != *prev + 1 {
                        return Err(hv(hseed, set, "consumer-yields", "gap-in-incarnation", json!({"partition": part, "offset": off, "previous": prev, "member": conn, "incarnation": inc}), &evs[..=i]));
                    }
                }
                last_y.insert((*conn, *inc, *part), *off);
                // resume right after the last committed offset
                if let Some(st) = awaiting.get_mut(conn) {
                    if let Some(s) = st.remove(part) {
                        if set.strat == Strat::Next && single_identity {
                            let want = s.map_or(0, |x| x + 1);
                            // an offset stored while nothing was ever consumed from an empty partition cannot exist; want==0 with s None
                            if *off != want {
                                let trig = if *off > want { "skipped-after-recreation" } else { "reread-committed-after-recreation" };
                                return Err(hv(hseed, set, "resume", trig, json!({"partition": part, "stored_offset_at_recreation": s, "first_yield_after": off, "expected": want}), &evs[..=i]));
                            }
                        }
                    }
                }
                *yielded.entry(*part).or_default().entry(*off).or_insert(0) += 1;
                let m = max_yielded.entry(*part).or_insert(0);
                *m = (*m).max(*off);
                any_yield.insert(*part);
            }
            Ev::Recreate { conn, stored, .. } => {
                awaiting.insert(*conn, stored.clone());
                for (p, s) in stored {
                    if let Some(s) = s {
                        // stored offsets themselves obey the bounds (server-side commits of fetch-time modes are seen only here)
                        if !any_fetch.contains(p) || *s > max_fetched[p] {
                            return Err(hv(hseed, set, "commit-bound", "stored-beyond-fetched", json!({"partition": p, "stored": s, "max_fetched": max_fetched.get(p)}), &evs[..=i]));
                        }
                        if set.mode.commits_on_consumption() && (!any_yield.contains(p) || *s > max_yielded[p]) {
                            return Err(hv(hseed, set, "commit-bound", "stored-beyond-yielded", json!({"partition": p, "stored": s, "last_yielded": max_yielded.get(p), "mode": format!("{:?}", set.mode)}), &evs[..=i]));
                        }
                        if !set.mode.commits_on_consumption() {
                            let f = floor.entry(*p).or_insert(0);
                            *f = (*f).max(*s + 1);
                        }
                    }
                }
            }
        }
    }
    for (p, s) in final_stored {
        if let Some(s) = s {
            if !any_fetch.contains(p) || *s > max_fetched[p] {
                return Err(hv(hseed, set, "commit-bound", "stored-beyond-fetched", json!({"partition": p, "stored": s, "max_fetched": max_fetched.get(p), "at": "end"}), evs));
            }
            if set.mode.commits_on_consumption() && (!any_yield.contains(p) || *s > max_yielded[p]) {
                return Err(hv(hseed, set, "commit-bound", "stored-beyond-yielded", json!({"partition": p, "stored": s, "last_yielded": max_yielded.get(p), "at": "end"}), evs));
            }
        }
    }
    // completeness and exactly-once
    if matches!(set.strat, Strat::Next | Strat::Offset0) {
        for (p, l) in expected {
            let y = yielded.get(p).cloned().unwrap_or_default();
            let from = floor.get(p).copied().unwrap_or(0);
            for off in from..l.len() as u64 {
                if !y.contains_key(&off) {
                    // `next` relies on the offset stored on the server: when the commit mode leaves a gap longer than one batch, every later poll
                    // returns only messages the consumer filters out as already consumed
                    let trig = match (set.strat, set.mode) {
                        (Strat::Next, Mode::Nth(n)) if set.c_batch < n => "never-yielded/next-strategy-nth-commit-gap-exceeds-batch",
                        _ => "never-yielded",
                    };
                    return Err(hv(hseed, set, "consumer-yields", trig, json!({"partition": p, "offset": off, "log_length": l.len(), "yielded_offsets": y.keys().collect::<Vec<_>>(), "skippable_below": from}), evs));
                }
            }
            if recreations == 0 && set.members == 1 {
                if let Some((off, n)) = y.iter().find(|(_, n)| **n > 1) {
                    return Err(hv(hseed, set, "consumer-yields", "yielded-twice", json!({"partition": p, "offset": off, "times": n}), evs));
                }
            }
        }
    }
    Ok(())
}

pub async fn run(ctx: &Ctx, rep: &mut ShardReport) {
    let cache = CacheMode::for_shard(ctx.shard);
    rep.process_cfg = cache.name().into();
    let replay = ctx.replay.as_ref().and_then(|p| std::fs::read_to_string(p).ok()).and_then(|t| serde_json::from_str::<Value>(&t).ok());
    let mut k = 0u64;
    let counter = AtomicU64::new(0);
    while ctx.time_left() {
        let hseed = match &replay {
            Some(v) => v["witness"]["history"].as_u64().unwrap_or(1),
            None => ctx.hist_seed(k),
        };
        k += 1;
        // the SDK clients leave detached tasks behind (interval committers): give every history its own runtime and drop it afterwards
        let (tx, rx) = tokio::sync::oneshot::channel();
        let taint = Arc::new(AtomicBool::new(false));
        let taint2 = taint.clone();
        std::thread::Builder::new()
            .name("c20-history".into())
            .spawn(move || {
                let rt = tokio::runtime::Builder::new_multi_thread().worker_threads(2).enable_all().build().unwrap();
                let out = rt.block_on(async move { tokio::time::timeout(Duration::from_secs(120), history(hseed, cache, taint2)).await });
                rt.shutdown_background();
                let _ = tx.send(out);
            })
            .unwrap();
        let out = match rx.await {
            Ok(Ok(o)) => o,
            Ok(Err(_)) if taint.load(Ordering::SeqCst) => Err(retag(hseed, "", json!({"stalled": "history exceeded 120 s"}))),
            Ok(Err(_)) => Err(Stop::Stall("history exceeded 120 s".into())),
            Err(_) => {
                let p = take_server_panics();
                let at = p.last().map(|x| format!("{} {}", x.location, x.message)).unwrap_or_default();
                if taint.load(Ordering::SeqCst) {
                    Err(retag(hseed, "", json!({"client_side_panic": at})))
                } else {
                    Err(Stop::Inconclusive(format!("history thread died: {}", at.chars().rev().take(45).collect::<String>().chars().rev().collect::<String>())))
                }
            }
        };
        rep.histories += 1;
        counter.fetch_add(1, Ordering::Relaxed);
        match out {
            Ok(o) => {
                rep.op_n("producer_message", o.produced as u64);
                rep.op_n("consumer_yield", o.yields as u64);
                rep.op_n("wire_fetch", o.fetches as u64);
                rep.op_n("wire_commit", o.commits as u64);
                rep.eval_n("C20:producer-delivers", o.produced as u64);
                rep.eval_n("C20:consumer-yields", o.yields as u64);
                rep.eval_n("C20:commit-bound", o.commits as u64 + 1);
                rep.eval_n("C20:resume", o.recreations as u64);
                rep.config_classes.insert(o.class.clone());
                if o.yields > 0 {
                    rep.histories_nontrivial += 1;
                    rep.shapes.insert(format!("{}#{}r", o.class, o.recreations));
                    rep.event("history_with_yields");
                }
                if o.recreations > 0 {
                    rep.event_n("consumer_recreated", o.recreations as u64);
                }
                if o.commits > 0 {
                    rep.event("history_with_wire_commits");
                }
                if o.refused_sends > 0 {
                    rep.event_n("producer_send_refused_and_retried", o.refused_sends);
                }
                if rep.samples.len() < 3 && o.recreations > 0 && o.yields > 5 {
                    rep.sample(o.sample);
                }
            }
            Err(Stop::Violation(v)) => rep.violation(v),
            Err(Stop::Inconclusive(x)) => rep.inconclusive(&x.chars().take(60).collect::<String>()),
            Err(Stop::Stall(x)) => rep.inconclusive(&format!("stall:{x}")),
        }
        if replay.is_some() {
            break;
        }
    }
}
