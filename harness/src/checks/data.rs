//! Checks that run on the data world (C01, C02, C03, C07, C14-C19): one engine, different
//! workload mixes, and a clause-ownership filter that decides which oracle clauses count for
//! the verdict of the property being checked.

use super::Ctx;
use crate::inst::{scratch_root, CacheMode, StorageCfg};
use crate::report::{ShardReport, Violation};
use crate::rng::Rng;
use crate::world::*;
use serde_json::{json, Value};

pub struct Profile {
    pub owner: &'static str,
    /// clause prefixes ("C01:") whose violations count for this check
    pub own: Vec<&'static str>,
    /// op weights: send, send_bad, poll, flush, save, restart, purge, store, get_off, del_off, checkpoint,
    /// advance+maintain, update_expiry, update_max, create_parts, delete_parts, delete_group
    pub w: [u32; 20],
    pub ops: (u64, u64),
    pub burst: (u64, u64),
    /// events of which at least one must occur for a history to be non-trivial
    pub nontrivial_any: Vec<&'static str>,
    /// events that must each be seen at least once in a run (else the run is inconclusive)
    pub required: Vec<&'static str>,
    pub cfg: fn(&mut Rng, CacheMode, &Ctx) -> (StorageCfg, TopicCfg),
    pub dup_rate: (u64, u64),
    pub key_rate: (u64, u64),
    pub balanced_rate: (u64, u64),
    pub poll_kinds: [u32; 5], // offset, first, last, next, timestamp
}

fn base_cfg(rng: &mut Rng, _cache: CacheMode, _ctx: &Ctx) -> (StorageCfg, TopicCfg) {
    let mut c = StorageCfg::random(rng);
    c.no_wait = rng.chance(1, 5);
    // encryption is orthogonal to every data property, but some code paths exist only with it: on in one history out of six
    c.encryption = rng.chance(1, 6);
    let t = TopicCfg { partitions: rng.range(1, 3) as u32, expiry_us: 0, max_size: 0 };
    (c, t)
}

fn dedup_cfg(rng: &mut Rng, cache: CacheMode, ctx: &Ctx) -> (StorageCfg, TopicCfg) {
    let (mut c, t) = base_cfg(rng, cache, ctx);
    c.dedup = rng.chance(4, 5);
    (c, t)
}

/// sizes are counted where the payload is already in its stored form: encryption on in a third of the histories
fn sizes_cfg(rng: &mut Rng, cache: CacheMode, ctx: &Ctx) -> (StorageCfg, TopicCfg) {
    let (mut c, t) = base_cfg(rng, cache, ctx);
    c.encryption = rng.chance(1, 3);
    (c, t)
}

fn enc_cfg(rng: &mut Rng, cache: CacheMode, ctx: &Ctx) -> (StorageCfg, TopicCfg) {
    let (mut c, t) = base_cfg(rng, cache, ctx);
    c.encryption = true;
    // confirmation mode is orthogonal to encryption; the no-wait shutdown defects are C03's known findings
    c.no_wait = false;
    (c, t)
}

fn retention_cfg(rng: &mut Rng, _cache: CacheMode, _ctx: &Ctx) -> (StorageCfg, TopicCfg) {
    let mut c = StorageCfg::random(rng);
    c.segment_size = *rng.pick(&[400, 700, 1000, 2000]);
    c.no_wait = false;
    c.encryption = rng.chance(1, 6);
    c.default_expiry_us = *rng.pick(&[0u64, 60_000_000]);
    c.delete_oldest = rng.chance(1, 4); // irrelevant while the topic is unlimited
    let expiry_us = *rng.pick(&[0u64, 1_000_000, 60_000_000, 86_400_000_000, u64::MAX]);
    let t = TopicCfg { partitions: rng.range(1, 3) as u32, expiry_us, max_size: 0 };
    (c, t)
}

fn sizelimit_cfg(rng: &mut Rng, _cache: CacheMode, _ctx: &Ctx) -> (StorageCfg, TopicCfg) {
    let mut c = StorageCfg::random(rng);
    c.segment_size = *rng.pick(&[1000, 2000, 4000, 8000]);
    c.no_wait = false;
    c.encryption = rng.chance(1, 6);
    c.delete_oldest = rng.chance(1, 2);
    let seg = c.segment_size;
    c.default_max_topic_size = *rng.pick(&[0, seg * 2]);
    let max_size = *rng.pick(&[seg, seg * 2, seg * 5, 0, u64::MAX]);
    let t = TopicCfg { partitions: rng.range(1, 3) as u32, expiry_us: 0, max_size };
    (c, t)
}

pub fn profile(check: &str) -> Profile {
    let default = Profile {
        owner: "C01",
        own: vec!["C01:"],
        w: [30, 4, 10, 6, 4, 8, 2, 0, 0, 0, 2, 0, 0, 0, 0, 0, 0, 0, 0, 0],
        ops: (20, 90),
        burst: (1, 3),
        nontrivial_any: vec!["send_after_restart", "purge", "rejected_send"],
        required: vec!["send_after_restart", "rejected_send", "purge"],
        cfg: base_cfg,
        dup_rate: (0, 1),
        key_rate: (0, 1),
        balanced_rate: (0, 1),
        poll_kinds: [10, 2, 3, 0, 0],
    };
    match check {
        "C01" => default,
        "C02" => Profile {
            owner: "C02",
            own: vec!["C02:"],
            w: [26, 0, 14, 8, 5, 6, 1, 2, 0, 0, 2, 0, 0, 0, 0, 0, 0, 0, 0, 0],
            burst: (3, 6),
            nontrivial_any: vec!["poll_tier_disk+buffer", "poll_spanning_restart_point", "poll_after_reload"],
            required: vec!["poll_tier_disk+buffer", "poll_tier_disk", "poll_tier_buffer", "poll_after_reload", "poll_spanning_restart_point"],
            poll_kinds: [12, 2, 3, 3, 4],
            ..default
        },
        "C03" => Profile {
            owner: "C03",
            own: vec!["C03:"],
            w: [30, 0, 6, 5, 3, 16, 2, 2, 0, 0, 1, 0, 0, 0, 0, 0, 0, 0, 0, 0],
            burst: (0, 2),
            nontrivial_any: vec!["send_after_restart", "restart_with_index_rebuild", "restart_flush_all"],
            required: vec!["send_after_restart", "restart_shutdown", "restart_flush_all"],
            ..default
        },
        "C07" => Profile {
            owner: "C07",
            own: vec!["C07:"],
            w: [14, 0, 16, 2, 1, 5, 2, 22, 6, 8, 1, 0, 0, 0, 0, 0, 2, 0, 0, 0],
            burst: (0, 1),
            nontrivial_any: vec!["auto_commit", "store_beyond_refused", "purge"],
            required: vec!["auto_commit", "store_beyond_refused", "restart_shutdown"],
            poll_kinds: [2, 1, 1, 16, 0],
            cfg: sizes_cfg, // encryption on in a third of the histories: the poll path (and with it auto-commit) differs when payloads are decrypted
            ..default
        },
        "C18" => Profile {
            owner: "C18",
            own: vec!["C18:"],
            w: [34, 0, 8, 5, 3, 8, 0, 0, 0, 0, 3, 0, 0, 0, 0, 0, 0, 0, 0, 0],
            nontrivial_any: vec!["dedup_dropped"],
            required: vec!["dedup_dropped", "dup_within_batch", "dup_across_restart", "near_miss_id_sent"],
            cfg: dedup_cfg,
            dup_rate: (1, 2),
            ..default
        },
        "C06" => Profile {
            owner: "C06",
            own: vec!["C06:"],
            w: [30, 2, 8, 5, 4, 8, 4, 6, 4, 1, 4, 0, 0, 0, 3, 3, 4, 0, 0, 3],
            nontrivial_any: vec!["purge", "send_after_restart", "balanced_send"],
            required: vec![],
            key_rate: (1, 4),
            balanced_rate: (1, 4),
            ..default
        },
        "C17" => Profile {
            owner: "C17",
            own: vec!["C17:"],
            w: [40, 8, 4, 2, 1, 3, 1, 0, 0, 0, 2, 0, 0, 0, 3, 3, 0, 0, 0, 0],
            burst: (0, 1),
            nontrivial_any: vec!["balanced_send", "key_repeat", "rejected_send"],
            required: vec!["balanced_send", "key_repeat", "rejected_send"],
            key_rate: (1, 3),
            balanced_rate: (1, 3),
            ..default
        },
        "C16" => Profile {
            owner: "C16",
            own: vec!["C16:"],
            w: [30, 2, 4, 5, 4, 8, 4, 0, 0, 0, 8, 0, 0, 0, 3, 3, 0, 0, 0, 3],
            burst: (0, 1),
            nontrivial_any: vec!["purge", "send_after_restart", "partitions_deleted"],
            required: vec!["purge", "restart_shutdown"],
            cfg: sizes_cfg,
            ..default
        },
        "C14" => Profile {
            owner: "C14",
            own: vec!["C14:"],
            w: [30, 0, 10, 3, 3, 6, 1, 4, 0, 0, 2, 22, 4, 0, 0, 0, 0, 0, 0, 0],
            burst: (1, 3),
            nontrivial_any: vec!["retention_deleted_messages"],
            required: vec!["retention_deleted_messages", "retention_deleted_everything", "poll_below_earliest", "send_after_retention", "restart_after_retention"],
            cfg: retention_cfg,
            poll_kinds: [10, 3, 2, 4, 1],
            ..default
        },
        "C15" => Profile {
            owner: "C15",
            own: vec!["C15:"],
            w: [50, 0, 4, 3, 3, 5, 0, 0, 0, 0, 2, 12, 0, 6, 0, 0, 0, 0, 0, 3],
            burst: (0, 1),
            nontrivial_any: vec!["send_refused_topic_full", "size_cleanup_deleted", "too_small_limit_refused"],
            required: vec!["send_refused_topic_full", "size_cleanup_deleted", "too_small_limit_refused", "max_size_updated"],
            cfg: sizelimit_cfg,
            ..default
        },
        "C19" => Profile {
            owner: "C19",
            own: vec!["C19:", "C02:fields", "C03:"],
            w: [30, 0, 10, 5, 3, 6, 2, 0, 0, 0, 4, 0, 0, 0, 2, 2, 2, 4, 1, 0],
            burst: (1, 3),
            nontrivial_any: vec!["send_after_restart", "wrong_key_start_refused_other-key", "ciphertext_corrupted"],
            required: vec!["restart_shutdown", "wrong_key_start_refused_other-key", "ciphertext_corrupted", "cleartext_scan_files"],
            cfg: enc_cfg,
            ..default
        },
        _ => default,
    }
}

fn pick_part(w: &World, rng: &mut Rng) -> u32 {
    w.parts[rng.below(w.parts.len() as u64) as usize].id
}

fn pick_ident(rng: &mut Rng) -> Ident {
    *rng.pick(&Ident::all())
}

pub fn gen_poll(w: &World, rng: &mut Rng, prof: &Profile, part: u32) -> Op {
    let p = w.part(part).unwrap();
    let len = p.msgs.len() as u64;
    let cur = p.cur();
    let kind = match rng.weighted(&prof.poll_kinds) {
        0 => PollKind::Offset,
        1 => PollKind::First,
        2 => PollKind::Last,
        3 => PollKind::Next,
        _ => PollKind::Timestamp,
    };
    let who = if kind == PollKind::Next { pick_ident(rng) } else { Ident::C(777) };
    let commit = kind == PollKind::Next && rng.chance(1, 2);
    let small = *rng.pick(&[1u32, 1, 2, 3, 5, 8, 13, 30, 100, 1000]);
    match kind {
        PollKind::Offset => {
            let sp = p.persisted;
            let far = p.first_after_restart.unwrap_or(sp);
            let (value, count) = match rng.below(9) {
                0 => (p.earliest, (len + 5) as u32),
                1 => {
                    let k = rng.range(0, 12).min(cur);
                    (cur - k, (k + rng.range(1, 3)) as u32)
                }
                2 => {
                    let a = rng.range(1, 8).min(sp);
                    (sp - a, (a + rng.range(1, 8)) as u32)
                }
                3 => {
                    let a = rng.range(1, 8).min(far);
                    (far - a, (a + rng.range(1, 8)) as u32)
                }
                4 => {
                    let b = *rng.pick(&[sp.saturating_sub(1), sp, far.saturating_sub(1), far, cur, 0]);
                    (b, 1)
                }
                5 => (cur + rng.range(1, 3), small),
                _ => (rng.range(0, cur + 1), small),
            };
            Op::Poll { part, kind, value, count: count.max(1), who, commit }
        }
        PollKind::Timestamp => {
            let known: Vec<u64> = p.msgs.iter().filter_map(|r| r.ts).collect();
            let value = if known.is_empty() {
                0
            } else {
                let t = *rng.pick(&known);
                match rng.below(6) {
                    0 => t + 1,
                    1 => t.saturating_sub(1),
                    2 => 0,
                    3 => known.last().unwrap() + 1_000_000,
                    _ => t,
                }
            };
            Op::Poll { part, kind, value, count: small, who, commit }
        }
        _ => Op::Poll { part, kind, value: 0, count: small, who, commit },
    }
}

pub fn gen_op(w: &World, rng: &mut Rng, prof: &Profile, seq: &mut u64) -> Op {
    let k = rng.weighted(&prof.w);
    let part = pick_part(w, rng);
    match k {
        0 => {
            *seq += 1;
            let n = match rng.below(10) {
                0..=3 => rng.range(1, 3),
                4..=6 => rng.range(2, 10),
                7..=8 => rng.range(5, 25),
                _ => rng.range(20, 40),
            } as u32;
            // straddle the save threshold now and then
            let thr = w.cfg.messages_required_to_save;
            let n = if rng.chance(1, 6) && thr <= 40 {
                let unsaved = w.part(part).map(|p| p.unsaved).unwrap_or(0);
                (thr.saturating_sub(unsaved) as i64 + rng.range(0, 2) as i64 - 1).max(1) as u32
            } else {
                n
            };
            // mostly small payloads; now and then one that is larger than a whole (small) segment or than typical buffers
            let sz = if rng.chance(1, 12) {
                rng.range(1, 23)
            } else if rng.chance(1, 30) {
                *rng.pick(&[500u64, 1_000, 2_100, 4_100, 9_000, 70_000])
            } else {
                rng.range(24, 180)
            } as u32;
            let mut dups = vec![];
            let balanced = rng.chance(prof.balanced_rate.0, prof.balanced_rate.1);
            let key = if !balanced && rng.chance(prof.key_rate.0, prof.key_rate.1) {
                let kl = *rng.pick(&[1usize, 2, 4, 8, 16, 100, 255]);
                // few distinct keys so that repeats occur
                let mut kr = Rng::new(rng.below(6) ^ (kl as u64) << 8);
                Some(kr.bytes(kl))
            } else {
                None
            };
            if w.cfg.dedup && !balanced && key.is_none() && rng.chance(prof.dup_rate.0, prof.dup_rate.1) {
                // re-use ids: of earlier messages of this partition, or of this very batch
                let p = w.part(part).unwrap();
                let cnt = rng.range(1, (n as u64).min(4));
                for _ in 0..cnt {
                    let pos = rng.below(n as u64) as u32;
                    if dups.iter().any(|(q, _)| *q == pos) {
                        continue;
                    }
                    if !p.msgs.is_empty() && rng.chance(2, 3) {
                        let r = &p.msgs[rng.below(p.msgs.len() as u64) as usize];
                        if (r.id >> 64) as u64 != w.hist || (r.id as u64) >> 62 != 0 {
                            // only ids of the regular shape are referenced (a near-miss id is not re-used)
                            continue;
                        }
                        // one reference in three is a NEAR MISS (bits 62..63 of the reference, decoded by op_send): a distinct 128-bit id that
                        // equals the earlier one in its low half, after swapping halves, or under an xor/sum fold of the halves - it must be stored
                        let variant = if rng.chance(1, 3) { rng.range(1, 3) } else { 0 };
                        dups.push((pos, ((r.id & 0xffff_ffff_ffff_ffff) as u64) | (variant << 62)));
                    } else if pos > 0 {
                        // same id as an earlier message of this batch
                        let other = rng.below(pos as u64) as u32;
                        let idv = ((*seq) << 20) | (other as u64 + 1);
                        dups.push((pos, idv));
                    }
                }
            }
            Op::Send { part, n, sz, seq: *seq, headers: rng.chance(1, 4), dups, key, balanced }
        }
        1 => {
            *seq += 1;
            Op::SendBad {
                kind: *rng.pick(&[BadSend::PartitionZero, BadSend::PartitionBeyond, BadSend::PartitionMax, BadSend::UnknownTopic, BadSend::UnknownStream]),
                n: rng.range(1, 5) as u32,
                seq: *seq,
            }
        }
        2 => gen_poll(w, rng, prof, part),
        3 => Op::Flush { part, fsync: rng.chance(1, 2) },
        4 => Op::SaveTick { fsync: rng.chance(1, 2) },
        5 => Op::Restart {
            mode: if rng.chance(2, 3) { RestartMode::Shutdown } else { RestartMode::FlushAll },
            drop_index: rng.chance(1, 8),
            quiesce: rng.chance(2, 3),
        },
        6 => Op::Purge,
        7 => {
            let cur = w.part(part).map(|p| p.cur()).unwrap_or(0);
            let offset = match rng.below(8) {
                0 => cur + rng.range(1, 5),
                1 => cur,
                2 => 0,
                _ => rng.range(0, cur),
            };
            Op::Store { part, who: pick_ident(rng), offset }
        }
        8 => Op::GetOffset { part, who: pick_ident(rng) },
        9 => Op::DeleteOffset { part, who: pick_ident(rng) },
        10 => Op::Checkpoint,
        11 => {
            if w.effective_expiry() != 0 && rng.chance(1, 2) {
                let e = w.effective_expiry();
                Op::AdvanceClock { us: *rng.pick(&[e / 3, e / 2, e, e + 1, 2 * e]) }
            } else {
                Op::Maintain
            }
        }
        12 => Op::UpdateExpiry { us: *rng.pick(&[0u64, 1_000_000, 60_000_000, 86_400_000_000, u64::MAX]) },
        13 => {
            let seg = w.cfg.segment_size;
            Op::UpdateMaxSize { bytes: *rng.pick(&[0, seg - 1, seg / 2, 1, seg, seg * 2, seg * 3, seg * 5, u64::MAX]) }
        }
        14 => Op::CreatePartitions { n: rng.range(1, 2) as u32 },
        15 => Op::DeletePartitions { n: rng.range(1, 3) as u32 },
        16 => Op::DeleteGroup { idx: rng.below(3) as u8 },
        17 => Op::RestartKey { off: rng.chance(1, 3) },
        18 => Op::CorruptCiphertext,
        _ => {
            *seq += 1;
            Op::SendSibling { n: rng.range(1, 4) as u32, seq: *seq }
        }
    }
}

pub enum Outcome {
    Ok,
    Stopped(Stop),
}

/// Runs one generated history. Returns the world (for stats) and how it ended.
pub async fn run_history(ctx: &Ctx, prof: &Profile, hseed: u64, cache: CacheMode) -> (World, Outcome) {
    let mut rng = Rng::new(hseed);
    let (cfg, tcfg) = (prof.cfg)(&mut rng, cache, ctx);
    let dir = scratch_root().join(format!("h{:016x}", hseed));
    let mut w = World::new(hseed, cfg, cache, tcfg, dir);
    w.deep = prof.owner == "C16";
    w.sibling = prof.owner == "C16" || (prof.owner == "C15" && rng.chance(2, 3));
    // half of the histories address stream and topic by name in every command
    w.named_ids = hseed % 2 == 0;
    if w.cfg.encryption {
        w.stream_name = format!("vstream-{:08x}", hseed & 0xffff_ffff);
        w.topic_name = format!("vtopic-{:08x}", hseed & 0xffff_ffff);
    }
    let nops = rng.range(prof.ops.0, prof.ops.1);
    let res: R<()> = async {
        w.boot().await?;
        let mut seq = 0u64;
        for _ in 0..nops {
            let op = gen_op(&w, &mut rng, prof, &mut seq);
            let mutating = !matches!(op, Op::Poll { .. } | Op::GetOffset { .. } | Op::Checkpoint);
            let send_target = if let Op::Send { part, balanced: false, key: None, .. } = &op { Some(*part) } else { None };
            let before_len = send_target.and_then(|p| w.part(p)).map(|p| p.msgs.len() as u64);
            w.exec(op).await?;
            if let (Some(p), Some(b)) = (send_target, before_len) {
                // read the new tail right away: learns timestamps/checksums, checks offsets (C01)
                let len = w.part(p).map(|x| x.msgs.len() as u64).unwrap_or(0);
                if len > b && !w.cfg.no_wait {
                    w.exec(Op::Poll { part: p, kind: PollKind::Offset, value: b, count: (len - b) as u32, who: Ident::C(777), commit: false }).await?;
                }
            }
            if mutating && !w.parts.is_empty() {
                let k = rng.range(prof.burst.0, prof.burst.1);
                for _ in 0..k {
                    let part = pick_part(&w, &mut rng);
                    let op = gen_poll(&w, &mut rng, prof, part);
                    w.exec(op).await?;
                }
            }
        }
        w.exec(Op::Checkpoint).await?;
        Ok(())
    }
    .await;
    w.teardown().await;
    match res {
        Ok(()) => (w, Outcome::Ok),
        Err(s) => (w, Outcome::Stopped(s)),
    }
}

/// Re-executes an explicit operation list (witness replay / stall confirmation).
pub async fn replay_ops(hist: u64, cfg: StorageCfg, cache: CacheMode, tcfg: TopicCfg, ops: Vec<Op>, deep: bool, sibling: bool) -> (World, Outcome) {
    let dir = scratch_root().join(format!("r{:016x}", hist));
    let mut w = World::new(hist, cfg, cache, tcfg, dir);
    w.deep = deep;
    w.sibling = sibling;
    w.named_ids = hist % 2 == 0;
    if w.cfg.encryption {
        w.stream_name = format!("vstream-{:08x}", hist & 0xffff_ffff);
        w.topic_name = format!("vtopic-{:08x}", hist & 0xffff_ffff);
    }
    let res: R<()> = async {
        w.boot().await?;
        for op in ops {
            w.exec(op).await?;
        }
        Ok(())
    }
    .await;
    w.teardown().await;
    match res {
        Ok(()) => (w, Outcome::Ok),
        Err(s) => (w, Outcome::Stopped(s)),
    }
}

fn merge(rep: &mut ShardReport, w: &World) {
    for (k, v) in &w.opsk {
        rep.op_n(k, *v);
    }
    for (k, v) in &w.evals {
        rep.eval_n(k, *v);
    }
    for (k, v) in &w.ev {
        rep.event_n(k, *v);
    }
}

fn owned(prof: &Profile, v: &Violation, w: &World) -> bool {
    let key = format!("{}:{}", v.property, v.clause);
    if prof.own.iter().any(|p| key.starts_with(p)) {
        return true;
    }
    // C03 also covers "the next accepted message receives the next offset; no restart lets an offset be used twice":
    // offset-assignment clauses that fire after a restart count for it as well.
    if prof.owner == "C03" && w.restarts > 0 && key.starts_with("C01:") {
        return true;
    }
    // ... and "preserves the append position" includes where the next batch goes in log and index: once messages were appended
    // after a restart, a poll that no longer returns its slice counts for C03 too (the load-time reconciliation repairs such damage
    // at the following restart, so the restart scan alone no longer sees it)
    if prof.owner == "C03" && w.restarts > 0 && !w.cfg.no_wait && w.ev.contains_key("send_after_restart") && key.starts_with("C02:slice") {
        return true;
    }
    // C06: "deleting an entity removes everything nested in it - ... stored consumer offsets ... - and never disturbs a sibling":
    // once a consumer group was deleted in the history, offsets that survive it, reappear in a group created under the same id,
    // or vanish from another identity count for C06 too
    if prof.owner == "C06" && !w.cfg.no_wait && w.ev.contains_key("group_deleted") && key.starts_with("C07:get-equals-last-stored") {
        return true;
    }
    // C14: "after deletion the partition's current offset is unchanged, new messages continue at the next offset - also after a restart":
    // once a maintenance pass has deleted messages, the offset-assignment clauses count for it as well (its profile is wait mode only)
    if prof.owner == "C14" && !w.cfg.no_wait && w.ev.contains_key("retention_deleted_messages") && key.starts_with("C01:") {
        return true;
    }
    // C18: a dropped duplicate is "dropped without consuming an offset": with deduplication on, offset-assignment clauses count for it
    if prof.owner == "C18" && w.cfg.dedup && key.starts_with("C01:") {
        return true;
    }
    // C19: "every poll returns exactly the payload that was sent and a restart with the same key restores the full ... data":
    // with encryption on (always wait confirmation in this profile) the slice and restart clauses count for it as well
    prof.owner == "C19" && w.cfg.encryption && !w.cfg.no_wait && (key.starts_with("C02:") || key.starts_with("C03:") || key.starts_with("C01:"))
}

pub async fn run(ctx: &Ctx, rep: &mut ShardReport) {
    let prof = profile(&ctx.check);
    let cache = CacheMode::for_shard(ctx.shard);
    rep.process_cfg = cache.name().to_string();
    if let Some(path) = &ctx.replay {
        replay_file(ctx, &prof, path, rep).await;
        return;
    }
    let max_hist: u64 = if ctx.thorough() { 1_000_000 } else { 100_000 };
    let mut k = 0u64;
    while ctx.time_left() && k < max_hist {
        let hseed = ctx.hist_seed(k);
        k += 1;
        let (w, out) = run_history(ctx, &prof, hseed, cache).await;
        merge(rep, &w);
        rep.histories += 1;
        let class = w.cfg.class(cache);
        rep.config_classes.insert(class.clone());
        let nontrivial = prof.nontrivial_any.iter().any(|e| w.ev.contains_key(*e));
        if nontrivial {
            rep.histories_nontrivial += 1;
            rep.shapes.insert(shape_hash(&class, &w.shape));
        }
        match out {
            Outcome::Ok => {
                if nontrivial && rep.samples.len() < 2 {
                    rep.sample(json!({"history": format!("{:016x}", hseed), "config": class, "topic": w.tcfg, "ops": summarize_ops(&w.ops), "events": w.ev}));
                }
            }
            Outcome::Stopped(Stop::Violation(v)) => {
                if owned(&prof, &v, &w) {
                    rep.violation(v);
                } else {
                    rep.foreign(&v);
                }
            }
            Outcome::Stopped(Stop::Inconclusive(r)) if r == "end-after-corruption" => {}
            Outcome::Stopped(Stop::Inconclusive(r)) => rep.inconclusive(&short(&r)),
            Outcome::Stopped(Stop::Stall(what)) => {
                // re-execute once from the explicit list; a second stall at the same op is a violation
                let idx = w.ops.len();
                let (w2, out2) = replay_ops(w.hist, w.cfg.clone(), cache, w.tcfg.clone(), w.ops.clone(), w.deep, w.sibling).await;
                match out2 {
                    Outcome::Stopped(Stop::Stall(what2)) if w2.ops.len() == idx => {
                        let v = Violation {
                            property: prof.owner.to_string(),
                            clause: "stall".into(),
                            signature: format!("{}:stall/{}", prof.owner, what2),
                            witness: w2.witness(json!({"stalled_at": what2, "timeout_s": OP_TIMEOUT_S})),
                        };
                        rep.violation(v);
                    }
                    _ => rep.inconclusive(&format!("stall:{what}")),
                }
            }
        }
    }
    rep.extra.insert("required_events".into(), json!(prof.required));
    rep.extra.insert("owner".into(), json!(prof.owner));
}

fn short(s: &str) -> String {
    s.chars().take(60).collect()
}

pub fn summarize_ops(ops: &[Op]) -> Value {
    // compact, complete: one short string per op
    Value::Array(ops.iter().map(|o| Value::String(compact(o))).collect())
}

fn compact(o: &Op) -> String {
    match o {
        Op::Send { part, n, sz, dups, key, balanced, .. } => format!(
            "send p{part} n={n} sz={sz}{}{}{}",
            if *balanced { " balanced" } else { "" },
            if key.is_some() { " key" } else { "" },
            if dups.is_empty() { String::new() } else { format!(" dups={}", dups.len()) }
        ),
        Op::Poll { part, kind, value, count, who, commit } => format!("poll p{part} {kind:?}({value}) n={count} {who:?}{}", if *commit { " commit" } else { "" }),
        other => format!("{other:?}"),
    }
}

async fn replay_file(_ctx: &Ctx, prof: &Profile, path: &str, rep: &mut ShardReport) {
    let Ok(text) = std::fs::read_to_string(path) else {
        rep.notes.push(format!("cannot read {path}"));
        return;
    };
    let Ok(v) = serde_json::from_str::<Value>(&text) else {
        rep.notes.push("witness is not json".into());
        return;
    };
    let wv = v.get("witness").unwrap_or(&v);
    let cfg: StorageCfg = match serde_json::from_value(wv["storage_cfg"].clone()) {
        Ok(c) => c,
        Err(e) => {
            rep.notes.push(format!("bad storage_cfg: {e}"));
            return;
        }
    };
    let tcfg: TopicCfg = serde_json::from_value(wv["topic_cfg"].clone()).unwrap_or(TopicCfg { partitions: 1, expiry_us: 0, max_size: 0 });
    let ops: Vec<Op> = serde_json::from_value(wv["ops"].clone()).unwrap_or_default();
    let cache = match wv["process_cfg"].as_str() {
        Some("cache_big") => CacheMode::Big,
        Some("cache_tiny") => CacheMode::Tiny,
        _ => CacheMode::Off,
    };
    let hist = wv["history"].as_u64().unwrap_or(1);
    rep.process_cfg = cache.name().into();
    let sibling = wv["sibling"].as_bool().unwrap_or(false);
    let (w, out) = replay_ops(hist, cfg, cache, tcfg, ops, prof.owner == "C16", sibling).await;
    merge(rep, &w);
    rep.histories = 1;
    match out {
        Outcome::Ok => rep.notes.push("replay: no violation reproduced".into()),
        Outcome::Stopped(Stop::Violation(v)) => {
            if owned(prof, &v, &w) {
                rep.violation(v);
            } else {
                rep.foreign(&v);
            }
        }
        Outcome::Stopped(Stop::Inconclusive(r)) => rep.inconclusive(&r),
        Outcome::Stopped(Stop::Stall(r)) => rep.inconclusive(&format!("stall:{r}")),
    }
}
