pub mod admin;
pub mod data;

use crate::report::ShardReport;
use std::time::Instant;

pub struct Ctx {
    pub check: String,
    pub tier: String,
    pub seed: u64,
    pub shard: u32,
    pub shards: u32,
    pub budget_s: u64,
    pub replay: Option<String>,
    pub start: Instant,
}

impl Ctx {
    pub fn time_left(&self) -> bool {
        self.start.elapsed().as_secs() < self.budget_s
    }
    pub fn thorough(&self) -> bool {
        self.tier == "thorough"
    }
    pub fn hist_seed(&self, k: u64) -> u64 {
        let mut r = crate::rng::Rng::new(self.seed.wrapping_mul(0x2545_F491_4F6C_DD1D) ^ ((self.shard as u64) << 48) ^ k);
        r.next_u64()
    }
}

pub async fn dispatch(ctx: &Ctx, rep: &mut ShardReport) -> bool {
    match ctx.check.as_str() {
        "C01" | "C02" | "C03" | "C07" | "C14" | "C15" | "C16" | "C17" | "C18" | "C19" => {
            data::run(ctx, rep).await;
            true
        }
        "C06" => {
            // "no acknowledged command sequence makes ... a later valid command fail" also covers the data commands (send, flush, purge,
            // partition changes, restarts): the last third of the budget runs data-world histories in which only C06's clauses count
            let data_witness = ctx.replay.as_ref().and_then(|p| std::fs::read_to_string(p).ok()).map(|t| t.contains("\"topic_cfg\"")).unwrap_or(false);
            if data_witness {
                data::run(ctx, rep).await;
                return true;
            }
            let actx = Ctx { check: ctx.check.clone(), tier: ctx.tier.clone(), seed: ctx.seed, shard: ctx.shard, shards: ctx.shards, budget_s: (ctx.budget_s * 2 / 3).max(1), replay: ctx.replay.clone(), start: ctx.start };
            admin::run(&actx, rep).await;
            if ctx.replay.is_none() {
                let required = rep.extra.get("required_events").cloned();
                data::run(ctx, rep).await;
                if let Some(r) = required {
                    rep.extra.insert("required_events".into(), r);
                }
            }
            true
        }
        "C05" | "C10" => {
            admin::run(ctx, rep).await;
            true
        }
        "C08" => {
            crate::groups::run(ctx, rep).await;
            true
        }
        "C04" => {
            crate::crash::run(ctx, rep).await;
            true
        }
        "C11" => {
            crate::journal::run(ctx, rep).await;
            true
        }
        "C12" => {
            crate::conc::run(ctx, rep).await;
            true
        }
        "C20" => {
            crate::hl::run(ctx, rep).await;
            true
        }
        "C13" => {
            crate::codec::run(ctx, rep).await;
            true
        }
        "C09" => {
            crate::perm::run(ctx, rep).await;
            true
        }
        _ => false,
    }
}
