//! C05 and C06 on the admin world.

use super::Ctx;
use crate::admin::*;
use crate::inst::{scratch_root, CacheMode, StorageCfg};
use crate::report::{ShardReport, Violation};
use crate::rng::Rng;
use crate::world::{shape_hash, Stop, R};
use serde_json::{json, Value};

pub struct AProfile {
    pub owner: &'static str,
    pub own: Vec<&'static str>,
    pub w: [u32; 13],
    pub ops: (u64, u64),
    pub nontrivial_any: Vec<&'static str>,
    pub required: Vec<&'static str>,
}

pub fn profile(check: &str) -> AProfile {
    match check {
        "C05" => AProfile {
            owner: "C05",
            own: vec!["C05:"],
            w: [16, 18, 8, 8, 2, 12, 5, 8, 7, 2, 0, 0, 0],
            ops: (15, 70),
            nontrivial_any: vec!["restart"],
            required: vec!["restart", "server_assigned_id", "entity_deleted", "rename_by_name", "delete_more_partitions_than_exist"],
        },
        "C10" => AProfile {
            owner: "C10",
            own: vec!["C10:"],
            w: [1, 0, 0, 0, 0, 30, 8, 0, 5, 1, 38, 8, 9],
            ops: (30, 150),
            nontrivial_any: vec!["password_changed", "token_login_expired", "token_login_deleted-or-owner-deleted", "user_deleted"],
            required: vec!["password_changed", "login_attempt_previous", "login_attempt_wrong", "login_attempt_other-users", "token_login_expired", "token_login_deleted-or-owner-deleted",
                "token_login_owner-inactive", "token_login_alive", "logout_checked", "http_logout_checked", "restart", "secret_scan_files", "non_root_token_created", "token_cleaner_pass"],
        },
        _ => AProfile {
            owner: "C06",
            own: vec!["C06:"],
            w: [14, 18, 8, 10, 16, 10, 4, 8, 0, 5, 0, 0, 0],
            ops: (20, 120),
            nontrivial_any: vec!["refused_command", "entity_deleted", "rename_by_name"],
            required: vec!["refused_command", "entity_deleted", "rename_by_name", "rename_by_id", "deleted_with_memberships", "server_assigned_id"],
        },
    }
}

fn admin_cfg(rng: &mut Rng) -> StorageCfg {
    let mut c = StorageCfg::random(rng);
    c.no_wait = false;
    c.http = rng.chance(1, 2);
    c.default_max_topic_size = *rng.pick(&[0, 1u64 << 40]);
    c.default_expiry_us = *rng.pick(&[0, 3_600_000_000]);
    c
}

pub enum AOutcome {
    Ok,
    Stopped(Stop),
}

pub async fn run_history(prof: &AProfile, hseed: u64, cache: CacheMode) -> (AdminWorld, AOutcome) {
    let mut rng = Rng::new(hseed);
    let mut cfg = admin_cfg(&mut rng);
    if prof.owner == "C10" {
        cfg.http = true;
        cfg.encryption = rng.chance(1, 4);
    }
    let dir = scratch_root().join(format!("a{:016x}", hseed));
    let mut w = AdminWorld::new(hseed, cfg, cache, dir);
    let nops = rng.range(prof.ops.0, prof.ops.1);
    let res: R<()> = async {
        w.start().await?;
        for _ in 0..nops {
            let op = gen_admin_op(&w, &mut rng, &prof.w);
            let http = rng.chance(1, 2);
            w.exec(op, http).await?;
        }
        w.exec(AOp::Dump, false).await?;
        if prof.owner == "C05" {
            w.exec(AOp::Restart, false).await?;
        }
        if prof.owner == "C10" {
            w.exec(AOp::ScanSecrets, false).await?;
            w.exec(AOp::Restart, false).await?;
            w.exec(AOp::ScanSecrets, false).await?;
        }
        Ok(())
    }
    .await;
    w.teardown().await;
    match res {
        Ok(()) => (w, AOutcome::Ok),
        Err(s) => (w, AOutcome::Stopped(s)),
    }
}

pub async fn replay(hist: u64, cfg: StorageCfg, cache: CacheMode, ops: Vec<(AOp, bool)>) -> (AdminWorld, AOutcome) {
    let dir = scratch_root().join(format!("ar{:016x}", hist));
    let mut w = AdminWorld::new(hist, cfg, cache, dir);
    let res: R<()> = async {
        w.start().await?;
        for (op, http) in ops {
            w.exec(op, http).await?;
        }
        Ok(())
    }
    .await;
    w.teardown().await;
    match res {
        Ok(()) => (w, AOutcome::Ok),
        Err(s) => (w, AOutcome::Stopped(s)),
    }
}

fn owned(prof: &AProfile, v: &Violation) -> bool {
    let key = format!("{}:{}", v.property, v.clause);
    prof.own.iter().any(|p| key.starts_with(p))
}

fn merge(rep: &mut ShardReport, w: &AdminWorld) {
    for (k, v) in &w.opsk {
        rep.op_n(k, *v);
    }
    for (k, v) in &w.evals {
        rep.eval_n(k, *v);
    }
    for (k, v) in &w.ev {
        rep.event_n(k, *v);
    }
}

pub async fn run(ctx: &Ctx, rep: &mut ShardReport) {
    let prof = profile(&ctx.check);
    let cache = CacheMode::for_shard(ctx.shard);
    rep.process_cfg = cache.name().to_string();
    if let Some(path) = &ctx.replay {
        let Ok(text) = std::fs::read_to_string(path) else { return };
        let Ok(v) = serde_json::from_str::<Value>(&text) else { return };
        let wv = v.get("witness").unwrap_or(&v);
        let Ok(cfg) = serde_json::from_value::<StorageCfg>(wv["storage_cfg"].clone()) else { return };
        let ops: Vec<(AOp, bool)> = wv["ops"]
            .as_array()
            .map(|a| a.iter().filter_map(|o| Some((serde_json::from_value::<AOp>(o["op"].clone()).ok()?, o["http"].as_bool().unwrap_or(false)))).collect())
            .unwrap_or_default();
        let cache = match wv["process_cfg"].as_str() {
            Some("cache_big") => CacheMode::Big,
            Some("cache_tiny") => CacheMode::Tiny,
            _ => CacheMode::Off,
        };
        let (w, out) = replay(wv["history"].as_u64().unwrap_or(1), cfg, cache, ops).await;
        merge(rep, &w);
        rep.histories = 1;
        match out {
            AOutcome::Ok => rep.notes.push("replay: no violation reproduced".into()),
            AOutcome::Stopped(Stop::Violation(v)) => {
                if owned(&prof, &v) {
                    rep.violation(v)
                } else {
                    rep.foreign(&v)
                }
            }
            AOutcome::Stopped(Stop::Inconclusive(r)) => rep.inconclusive(&r),
            AOutcome::Stopped(Stop::Stall(r)) => rep.inconclusive(&format!("stall:{r}")),
        }
        return;
    }
    let mut k = 0u64;
    while ctx.time_left() {
        let hseed = ctx.hist_seed(k);
        k += 1;
        let (w, out) = run_history(&prof, hseed, cache).await;
        merge(rep, &w);
        rep.histories += 1;
        let class = format!("{}|http{}|seg{}", cache.name(), w.cfg.http as u8, w.cfg.segment_size);
        rep.config_classes.insert(class.clone());
        let nontrivial = prof.nontrivial_any.iter().any(|e| w.ev.contains_key(*e));
        if nontrivial {
            rep.histories_nontrivial += 1;
            rep.shapes.insert(shape_hash(&class, &w.shape));
        }
        match out {
            AOutcome::Ok => {
                if nontrivial && rep.samples.len() < 2 {
                    let ops: Vec<String> = w.ops.iter().map(|(o, h)| format!("{}{:?}", if *h { "http:" } else { "" }, o)).collect();
                    rep.sample(json!({"history": format!("{:016x}", hseed), "config": class, "ops": ops, "events": w.ev}));
                }
            }
            AOutcome::Stopped(Stop::Violation(v)) => {
                if owned(&prof, &v) {
                    rep.violation(v);
                } else {
                    rep.foreign(&v);
                }
            }
            AOutcome::Stopped(Stop::Inconclusive(r)) => rep.inconclusive(&r.chars().take(60).collect::<String>()),
            AOutcome::Stopped(Stop::Stall(what)) => {
                let n = w.ops.len();
                let (w2, out2) = replay(w.hist, w.cfg.clone(), cache, w.ops.clone()).await;
                match out2 {
                    AOutcome::Stopped(Stop::Stall(what2)) if w2.ops.len() == n => {
                        rep.violation(Violation {
                            property: prof.owner.to_string(),
                            clause: "stall".into(),
                            signature: format!("{}:stall/{}", prof.owner, what2),
                            witness: w2.witness(json!({"stalled_at": what2})),
                        });
                    }
                    _ => rep.inconclusive(&format!("stall:{what}")),
                }
            }
        }
    }
    rep.extra.insert("required_events".into(), json!(prof.required));
}
