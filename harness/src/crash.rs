//! C04: after a crash at any instant, restart exposes a consistent prefix of the log.
//! Fault enumeration: hook H3 freezes the data directory at every file mutation the server performs
//! (single-worker server runtime, so nothing else can issue a new file operation while the copy is
//! taken); torn variants of the last write are derived; every image is recovered by a fresh
//! incarnation and judged against the reference model.

use crate::checks::Ctx;
use crate::inst::{copy_dir, scratch_root, take_server_panics, CacheMode, ServerInstance, StartError, StorageCfg};
use crate::raw::RawClient;
use crate::report::{ShardReport, Violation};
use crate::rng::Rng;
use crate::world::{compress, head, timed, Stop, R};
use bytes::Bytes;
use iggy::client::*;
use iggy::compression::compression_algorithm::CompressionAlgorithm;
use iggy::consumer::Consumer;
use iggy::identifier::Identifier;
use iggy::messages::poll_messages::PollingStrategy;
use iggy::messages::send_messages::{Message, Partitioning};
use iggy::utils::expiry::IggyExpiry;
use iggy::utils::topic_size::MaxTopicSize;
use serde_json::{json, Value};
use std::collections::{BTreeMap, HashMap};
use std::path::{Path, PathBuf};
use std::sync::{Arc, Mutex};

#[derive(Clone, Debug, Default)]
struct Snap {
    /// accepted payloads per partition of topic 1 (acknowledged so far)
    parts: BTreeMap<u32, Vec<Bytes>>,
    /// messages certainly on disk per partition (log and index write completed)
    durable: BTreeMap<u32, u64>,
    /// the operation in flight: a send (partition, payloads) may or may not have taken effect
    inflight_send: Option<(u32, Vec<Bytes>)>,
    inflight: String,
    /// topic 2 exists (acknowledged) / in flight
    topic2: bool,
    purged_inflight: bool,
    /// stored consumer offsets ever acknowledged or in flight: (partition, consumer) -> values
    offsets: BTreeMap<(u32, u32), Vec<u64>>,
    ops_done: usize,
}

#[derive(Clone, Debug)]
struct Image {
    n: usize,
    kind: String,
    file: String,
    prev_len: u64,
    new_len: u64,
    dir: PathBuf,
    snap: Snap,
    /// durable counts before this event (what a torn variant of this write may still demand)
    durable_before: BTreeMap<u32, u64>,
}

struct Collector {
    root: PathBuf,
    images_dir: PathBuf,
    sizes: HashMap<String, u64>,
    images: Vec<Image>,
    snap: Arc<Mutex<Snap>>,
    enabled: bool,
}

/// stream 2, topic 3, second topic 5 (all ids different)
fn sid() -> Identifier {
    Identifier::numeric(2).unwrap()
}
fn tid() -> Identifier {
    Identifier::numeric(3).unwrap()
}

#[allow(dead_code)]
fn one() -> Identifier {
    Identifier::numeric(1).unwrap()
}

fn cv(hist: u64, cfg: &StorageCfg, ops: &[String], clause: &str, trig: &str, detail: Value) -> Violation {
    let mode = if cfg.no_wait { "nowait" } else { "wait" };
    Violation {
        property: "C04".into(),
        clause: clause.into(),
        signature: format!("C04:{clause}/{trig}/{mode}"),
        witness: json!({"history": hist, "storage_cfg": cfg, "ops": ops, "first_bad": {"detail": detail}, "server_panics": take_server_panics()}),
    }
}

fn partition_of(path: &str) -> Option<u32> {
    // .../streams/2/topics/3/partitions/<p>/...
    let i = path.find("/topics/3/partitions/")?;
    let rest = &path[i + "/topics/3/partitions/".len()..];
    rest.split('/').next()?.parse().ok()
}

struct Hist {
    hist: u64,
    cfg: StorageCfg,
    dir: PathBuf,
    ops: Vec<String>,
    col: Arc<Mutex<Collector>>,
    snap: Arc<Mutex<Snap>>,
    parts: u32,
}

/// Phase 1: run a short workload with the sink armed, collecting one image per file mutation.
async fn workload(hseed: u64, cache: CacheMode, rng: &mut Rng) -> R<(Hist, Vec<Image>)> {
    let mut cfg = StorageCfg::random(rng);
    cfg.workers = 1;
    cfg.no_wait = rng.chance(1, 6);
    cfg.segment_size = *rng.pick(&[400, 700, 1000, 1_000_000_000]);
    cfg.messages_required_to_save = *rng.pick(&[1, 2, 3, 5, 1000]);
    // the server's default is to re-create what the journal lists and the disk lacks; the strict setting refuses to start instead
    cfg.recreate_missing_state = hseed % 2 == 0;
    let base = scratch_root().join(format!("k{:016x}", hseed));
    let dir = base.join("live");
    let images_dir = base.join("images");
    let _ = std::fs::create_dir_all(&images_dir);
    let snap = Arc::new(Mutex::new(Snap::default()));
    let col = Arc::new(Mutex::new(Collector { root: dir.clone(), images_dir, sizes: HashMap::new(), images: vec![], snap: snap.clone(), enabled: false }));
    let c2 = col.clone();
    server::verif::set_fs_sink(Some(Box::new(move |kind: &str, path: &str| {
        let mut c = c2.lock().unwrap();
        if !c.enabled || !path.starts_with(c.root.to_str().unwrap_or("?")) {
            return;
        }
        let new_len = std::fs::metadata(path).map(|m| m.len()).unwrap_or(0);
        let prev_len = c.sizes.get(path).copied().unwrap_or(0);
        c.sizes.insert(path.to_string(), new_len);
        let n = c.images.len();
        let d = c.images_dir.join(format!("{n}"));
        if copy_dir(&c.root, &d).is_err() {
            return;
        }
        let mut s = c.snap.lock().unwrap().clone();
        let durable_before = s.durable.clone();
        // an index write that has returned completes the batch: everything accepted (plus the send in flight) is on disk now
        if kind == "index_write" {
            if let Some(p) = partition_of(path) {
                let mut n_acc = s.parts.get(&p).map(|v| v.len() as u64).unwrap_or(0);
                if let Some((ip, pl)) = &s.inflight_send {
                    if *ip == p {
                        n_acc += pl.len() as u64;
                    }
                }
                let cur = s.durable.get(&p).copied().unwrap_or(0);
                // the segment may have been purged in between: durable only ever describes the current log
                s.durable.insert(p, n_acc.max(cur));
                c.snap.lock().unwrap().durable.insert(p, n_acc.max(cur));
            }
        }
        c.images.push(Image { n, kind: kind.to_string(), file: path.to_string(), prev_len, new_len, dir: d, snap: s, durable_before });
    })));
    let parts = rng.range(1, 2) as u32;
    let inst = ServerInstance::start(&dir, &cfg, cache).await.map_err(|e| Stop::Inconclusive(format!("{e:?}")))?;
    let mut h = Hist { hist: hseed, cfg: cfg.clone(), dir: dir.clone(), ops: vec![], col: col.clone(), snap: snap.clone(), parts };
    let r = workload_inner(&mut h, &inst, rng).await;
    col.lock().unwrap().enabled = false;
    let _ = inst.stop(false).await;
    server::verif::set_fs_sink(None);
    r?;
    let images = std::mem::take(&mut col.lock().unwrap().images);
    Ok((h, images))
}

async fn workload_inner(h: &mut Hist, inst: &ServerInstance, rng: &mut Rng) -> R<()> {
    let c = RawClient::connect(inst.tcp_addr).await.map_err(Stop::Inconclusive)?;
    timed("login", c.login_user("iggy", "iggy")).await?.map_err(|e| Stop::Inconclusive(e.to_string()))?;
    timed("create_stream", c.create_stream("kstream", Some(2))).await?.map_err(|e| Stop::Inconclusive(e.to_string()))?;
    timed("create_topic", c.create_topic(&sid(), "ktopic", h.parts, CompressionAlgorithm::None, None, Some(3), IggyExpiry::NeverExpire, MaxTopicSize::Unlimited))
        .await?
        .map_err(|e| Stop::Inconclusive(e.to_string()))?;
    {
        let mut s = h.snap.lock().unwrap();
        for p in 1..=h.parts {
            s.parts.insert(p, vec![]);
            s.durable.insert(p, 0);
        }
    }
    // from here on every file mutation is an image
    {
        let mut col = h.col.lock().unwrap();
        let mut files = vec![];
        crate::world::collect_files(&h.dir, &mut files);
        for f in files {
            if let (Some(p), Ok(m)) = (f.to_str(), std::fs::metadata(&f)) {
                col.sizes.insert(p.to_string(), m.len());
            }
        }
        col.enabled = true;
    }
    let nops = rng.range(8, 30);
    let mut seq = 0u64;
    for _ in 0..nops {
        let p = rng.range(1, h.parts as u64) as u32;
        match rng.weighted(&[55, 8, 6, 10, 3, 6]) {
            0 => {
                seq += 1;
                let n = *rng.pick(&[1u32, 1, 2, 3, 5, 9]);
                let mut msgs = vec![];
                let mut pls = vec![];
                for i in 0..n {
                    let pl = Bytes::from(format!("{:x}/k{}/{}|{}", h.hist & 0xffff_ffff, seq, i, "c".repeat(rng.range(0, 120) as usize)));
                    pls.push(pl.clone());
                    msgs.push(Message::new(Some(((h.hist as u128) << 64) | ((seq as u128) << 16) | (i as u128 + 1)), pl, None));
                }
                {
                    let mut s = h.snap.lock().unwrap();
                    s.inflight_send = Some((p, pls.clone()));
                    s.inflight = format!("send p{p} n={n}");
                }
                h.ops.push(format!("send p{p} n={n}"));
                let r = timed("send", c.send_messages(&sid(), &tid(), &Partitioning::partition_id(p), &mut msgs)).await?;
                let mut s = h.snap.lock().unwrap();
                s.inflight_send = None;
                s.inflight.clear();
                if r.is_ok() {
                    s.parts.get_mut(&p).unwrap().extend(pls);
                } else {
                    return Err(Stop::Inconclusive(format!("send failed: {:?}", r.err())));
                }
                s.ops_done += 1;
            }
            1 => {
                h.ops.push(format!("flush p{p}"));
                h.snap.lock().unwrap().inflight = format!("flush p{p}");
                let _ = timed("flush", c.flush_unsaved_buffer(&sid(), &tid(), p, rng.chance(1, 2))).await?;
                h.snap.lock().unwrap().inflight.clear();
            }
            2 => {
                h.ops.push("save_tick".into());
                h.snap.lock().unwrap().inflight = "save_tick".into();
                let _ = timed("save", inst.save_tick(false)).await?;
                h.snap.lock().unwrap().inflight.clear();
            }
            3 => {
                let cur = h.snap.lock().unwrap().parts[&p].len() as u64;
                if cur == 0 {
                    continue;
                }
                let who = rng.range(1, 2) as u32;
                let off = rng.range(0, cur - 1);
                h.ops.push(format!("store_offset p{p} consumer{who} = {off}"));
                h.snap.lock().unwrap().offsets.entry((p, who)).or_default().push(off);
                let _ = timed("store", c.store_consumer_offset(&Consumer::new(Identifier::numeric(who).unwrap()), &sid(), &tid(), Some(p), off)).await?;
            }
            4 => {
                // purge: the log restarts from offset 0
                h.ops.push("purge_topic".into());
                {
                    let mut s = h.snap.lock().unwrap();
                    s.purged_inflight = true;
                    s.inflight = "purge_topic".into();
                }
                // images taken during the purge are ambiguous; they are recovered with the lenient "either before or after" rule
                let r = timed("purge", c.purge_topic(&sid(), &tid())).await?;
                let mut s = h.snap.lock().unwrap();
                s.purged_inflight = false;
                s.inflight.clear();
                if r.is_ok() {
                    for p in 1..=h.parts {
                        s.parts.insert(p, vec![]);
                        s.durable.insert(p, 0);
                    }
                    s.offsets.clear();
                }
            }
            _ => {
                let exists = h.snap.lock().unwrap().topic2;
                let two = Identifier::numeric(5).unwrap();
                if exists {
                    h.ops.push("delete_topic 2".into());
                    h.snap.lock().unwrap().inflight = "delete_topic 2".into();
                    let r = timed("delete_topic", c.delete_topic(&sid(), &two)).await?;
                    let mut s = h.snap.lock().unwrap();
                    s.inflight.clear();
                    if r.is_ok() {
                        s.topic2 = false;
                    }
                } else {
                    h.ops.push("create_topic 2".into());
                    h.snap.lock().unwrap().inflight = "create_topic 2".into();
                    let r = timed("create_topic", c.create_topic(&sid(), "ktopic2", 1, CompressionAlgorithm::None, None, Some(5), IggyExpiry::NeverExpire, MaxTopicSize::Unlimited)).await?;
                    let mut s = h.snap.lock().unwrap();
                    s.inflight.clear();
                    if r.is_ok() {
                        s.topic2 = true;
                    }
                }
            }
        }
    }
    Ok(())
}

/// lengths to which the last written file is cut back
fn torn_lengths(prev: u64, new: u64, rng: &mut Rng) -> Vec<u64> {
    if new <= prev + 1 {
        return vec![];
    }
    let d = new - prev;
    let mut v: Vec<u64> = if d <= 64 { (prev + 1..new).collect() } else { vec![prev + 1, prev + 8, prev + 23, prev + 24, prev + 25, prev + 52, new - 1] };
    if d > 64 {
        for _ in 0..4 {
            v.push(prev + rng.range(1, d - 1));
        }
    }
    v.retain(|x| *x > prev && *x < new);
    v.sort();
    v.dedup();
    v
}

/// pseudo torn-length: the directory that held the deleted partition is gone as well
const DIR_GONE: u64 = u64::MAX;

struct Verdict {
    started: bool,
}

/// Phase 2: recover one image (optionally with the last file cut to `torn`) and judge it.
#[allow(clippy::too_many_arguments)]
async fn recover(h: &Hist, img: &Image, torn: Option<u64>, cache: CacheMode, rep: &mut ShardReport, work: &Path, rng: &mut Rng) -> Result<Verdict, Violation> {
    let _ = std::fs::remove_dir_all(work);
    copy_dir(&img.dir, work).map_err(|e| cv(h.hist, &h.cfg, &h.ops, "harness", "copy", json!({"error": e.to_string()})))?;
    let desc = |extra: Value| {
        json!({"image": img.n, "taken_after": img.kind, "file": img.file.rsplit("/live/").next(), "previous_len": img.prev_len, "len": img.new_len, "cut_to": torn,
            "operation_in_flight": img.snap.inflight, "operations_completed": img.snap.ops_done, "detail": extra})
    };
    let dir_gone = torn == Some(DIR_GONE);
    let torn = if dir_gone { None } else { torn };
    if dir_gone {
        let rel = img.file.strip_prefix(h.dir.to_str().unwrap()).unwrap_or(&img.file);
        let target = work.join(rel.trim_start_matches('/'));
        if let Some(parent) = target.parent() {
            let _ = std::fs::remove_dir_all(parent);
        }
    }
    if let Some(t) = torn {
        let rel = img.file.strip_prefix(h.dir.to_str().unwrap()).unwrap_or(&img.file);
        let target = work.join(rel.trim_start_matches('/'));
        if let Ok(f) = std::fs::OpenOptions::new().write(true).open(&target) {
            let _ = f.set_len(t);
        } else {
            return Ok(Verdict { started: false });
        }
    }
    let mut cfg = h.cfg.clone();
    cfg.workers = 2;
    let tk = if torn.is_some() { "torn" } else { "untorn" };
    rep.eval("C04:restart-succeeds");
    let inst = match timed("recovery start", ServerInstance::start(work, &cfg, cache)).await {
        Err(_) => return Err(cv(h.hist, &h.cfg, &h.ops, "restart-succeeds", &format!("hang/{tk}/{}", img.kind), desc(json!("System::init did not return within 30 s")))),
        Ok(Ok(i)) => i,
        Ok(Err(StartError::Panic(m))) => return Err(cv(h.hist, &h.cfg, &h.ops, "restart-succeeds", &format!("panic/{tk}/{}", img.kind), desc(json!({"panic": m})))),
        Ok(Err(StartError::Init(e))) => {
            if img.snap.inflight.starts_with("delete_") && !h.cfg.recreate_missing_state {
                // crash while delete_topic was removing directories: the journal still lists the topic, the loader finds half of it
                return Err(cv(h.hist, &h.cfg, &h.ops, "restart-succeeds", "init-error/delete-in-flight", desc(json!({"init_error": e}))));
            }
            if torn.is_none() {
                return Err(cv(h.hist, &h.cfg, &h.ops, "restart-succeeds", &format!("init-error/untorn/{}", img.kind), desc(json!({"init_error": e}))));
            }
            rep.event("torn_image_reported_as_error");
            return Ok(Verdict { started: false });
        }
        Ok(Err(StartError::Harness(e))) => return Err(cv(h.hist, &h.cfg, &h.ops, "harness", "start", json!({"error": e}))),
    };
    let res = judge(h, img, torn, &inst, rep, rng, &desc).await;
    let panics = take_server_panics();
    let _ = inst.stop(false).await;
    res?;
    if !panics.is_empty() {
        return Err(cv(h.hist, &h.cfg, &h.ops, "restart-succeeds", &format!("panic-after-recovery/{tk}/{}", img.kind), desc(json!({"panics": panics}))));
    }
    Ok(Verdict { started: true })
}

async fn scan(c: &RawClient, p: u32) -> Result<Vec<(u64, Bytes)>, String> {
    let who = Consumer::new(Identifier::numeric(9000).unwrap());
    let mut out = vec![];
    let mut off = 0u64;
    loop {
        let r = tokio::time::timeout(std::time::Duration::from_secs(30), c.poll_messages(&sid(), &tid(), Some(p), &who, &PollingStrategy::offset(off), 100, false)).await;
        let pm = match r {
            Ok(Ok(p)) => p,
            Ok(Err(e)) => return Err(e.to_string()),
            Err(_) => return Err("timeout".into()),
        };
        if pm.messages.is_empty() {
            break;
        }
        for m in pm.messages {
            off = off.max(m.offset + 1);
            out.push((m.offset, m.payload));
        }
        if out.len() > 5000 {
            break;
        }
    }
    Ok(out)
}

async fn judge(h: &Hist, img: &Image, torn: Option<u64>, inst: &ServerInstance, rep: &mut ShardReport, rng: &mut Rng, desc: &dyn Fn(Value) -> Value) -> Result<(), Violation> {
    let tk = if torn.is_some() { "torn" } else { "untorn" };
    // no-wait: background writes are unordered and unacknowledged by design, one signature per clause is enough there
    let bad = |clause: &str, trig: &str, d: Value| {
        let t = if h.cfg.no_wait { trig.to_string() } else { format!("{trig}/{tk}/{}", img.kind) };
        cv(h.hist, &h.cfg, &h.ops, clause, &t, desc(d))
    };
    let c = RawClient::connect(inst.tcp_addr).await.map_err(|e| bad("harness", "connect", json!(e)))?;
    c.login_user("iggy", "iggy").await.map_err(|e| bad("restart-succeeds", "root-login-refused", json!(e.to_string())))?;
    // catalogue: stream 1 / topic 1 with all partitions were acknowledged before any image was taken
    rep.eval("C04:catalogue-prefix");
    let t = match c.get_topic(&sid(), &tid()).await {
        Ok(Some(t)) => t,
        other => return Err(bad("catalogue-prefix", "acknowledged-topic-missing", json!(format!("{other:?}")))),
    };
    if t.partitions_count != h.parts {
        return Err(bad("catalogue-prefix", "partition-dropped", json!({"partitions": t.partitions_count, "expected": h.parts})));
    }
    let t2 = c.get_topic(&sid(), &Identifier::numeric(5).unwrap()).await.ok().flatten().is_some();
    let inflight_t2 = img.snap.inflight.contains("topic 2");
    if t2 != img.snap.topic2 && !inflight_t2 {
        return Err(bad("catalogue-prefix", "topic2-differs", json!({"recovered_has_topic2": t2, "acknowledged": img.snap.topic2})));
    }
    for p in 1..=h.parts {
        let model = img.snap.parts.get(&p).cloned().unwrap_or_default();
        let mut upper = model.clone();
        if let Some((ip, pl)) = &img.snap.inflight_send {
            if *ip == p {
                upper.extend(pl.iter().cloned());
            }
        }
        let got = scan(&c, p).await.map_err(|e| bad("prefix", "poll-error-after-recovery", json!({"partition": p, "error": e})))?;
        let offs: Vec<u64> = got.iter().map(|x| x.0).collect();
        rep.eval("C04:prefix");
        let purge_amb = img.snap.purged_inflight;
        // gap-free, duplicate-free from 0 (an image taken in the middle of a purge may have lost the oldest segments already: any contiguous run is accepted there)
        let first = if purge_amb { offs.first().copied().unwrap_or(0) } else { 0 };
        if offs.iter().enumerate().any(|(i, o)| *o != first + i as u64) {
            return Err(bad("prefix", "gap-or-duplicate", json!({"partition": p, "recovered_offsets": compress(&offs)})));
        }
        if !purge_amb {
            if got.len() > upper.len() {
                return Err(bad("prefix", "more-than-accepted", json!({"partition": p, "recovered": got.len(), "accepted_plus_in_flight": upper.len()})));
            }
            for (i, (_, pl)) in got.iter().enumerate() {
                if upper[i] != *pl {
                    return Err(bad("prefix", "content-differs", json!({"partition": p, "offset": i, "recovered": head(pl), "accepted": head(&upper[i])})));
                }
            }
            // durability lower bound
            rep.eval("C04:durable-lower-bound");
            let mut need = img.snap.durable.get(&p).copied().unwrap_or(0);
            if torn.is_some() {
                // the write that was cut had not completed: only what was durable before it counts
                need = img.durable_before.get(&p).copied().unwrap_or(0);
            }
            if h.cfg.no_wait {
                need = 0; // the statement's lower bound is about wait-confirmation only
            }
            if (got.len() as u64) < need {
                return Err(bad("durable-lower-bound", "completed-write-lost", json!({"partition": p, "recovered": got.len(), "written_before_the_crash": need})));
            }
            if need > 0 {
                rep.event("durable_batches_demanded");
            }
        } else {
            rep.event("image_during_purge_lenient");
        }
        // post-recovery traffic continues at the next offset, nothing twice
        let n = rng.range(1, 3) as u32;
        let mut msgs = vec![];
        let mut pls = vec![];
        for i in 0..n {
            let pl = Bytes::from(format!("{:x}/post{}/{}|after-recovery", h.hist & 0xffff_ffff, img.n, i));
            pls.push(pl.clone());
            msgs.push(Message::new(Some(((h.hist as u128) << 64) | (0x7_0000_0000u128) | ((img.n as u128) << 8) | (i as u128 + 1)), pl, None));
        }
        rep.eval("C04:continues-at-next-offset");
        if let Err(e) = c.send_messages(&sid(), &tid(), &Partitioning::partition_id(p), &mut msgs).await {
            return Err(bad("continues-at-next-offset", "send-refused-after-recovery", json!({"partition": p, "error": e.to_string()})));
        }
        let exp_len = got.len() + n as usize;
        let mut after = scan(&c, p).await.map_err(|e| bad("continues-at-next-offset", "poll-error", json!({"partition": p, "error": e})))?;
        if h.cfg.no_wait {
            // bounded progress: no-wait sends become readable
            let mut tries = 0;
            while after.len() < exp_len && tries < crate::world::NOWAIT_RETRIES {
                tries += 1;
                tokio::time::sleep(std::time::Duration::from_millis(2)).await;
                after = scan(&c, p).await.map_err(|e| bad("continues-at-next-offset", "poll-error", json!({"partition": p, "error": e})))?;
            }
        }
        let offs2: Vec<u64> = after.iter().map(|x| x.0).collect();
        let first2 = if purge_amb { offs2.first().copied().unwrap_or(0) } else { 0 };
        let contiguous2 = if purge_amb && got.is_empty() {
            // nothing was readable: the new messages may start wherever the partially purged partition continues
            offs2.windows(2).all(|w| w[1] == w[0] + 1)
        } else {
            offs2.iter().enumerate().all(|(i, o)| *o == first2 + i as u64)
        };
        let ok = after.len() == exp_len
            && contiguous2
            && after[..got.len()].iter().zip(got.iter()).all(|(a, b)| a.1 == b.1)
            && after[got.len()..].iter().zip(pls.iter()).all(|(a, b)| a.1 == *b);
        if !ok {
            let trig = if offs2.windows(2).any(|w| w[1] <= w[0]) { "offset-reused-or-orphan-served" } else { "log-differs-after-append" };
            return Err(bad("continues-at-next-offset", trig, json!({"partition": p, "recovered": got.len(), "sent_after_recovery": n, "offsets_now": compress(&offs2),
                "payload_heads_tail": after.iter().rev().take(4).map(|x| head(&x.1)).collect::<Vec<_>>()})));
        }
        // stored consumer offsets are values that were stored at some time (never garbage)
        for who in 1..=2u32 {
            rep.eval("C04:offsets-not-garbage");
            let r = c.get_consumer_offset(&Consumer::new(Identifier::numeric(who).unwrap()), &sid(), &tid(), Some(p)).await;
            if let Ok(Some(o)) = r {
                let hist_vals = img.snap.offsets.get(&(p, who)).cloned().unwrap_or_default();
                if !hist_vals.contains(&o.stored_offset) && !purge_amb {
                    return Err(bad("offsets-not-garbage", "never-stored-value", json!({"partition": p, "consumer": who, "recovered": o.stored_offset, "values_ever_stored": hist_vals})));
                }
            }
        }
    }
    Ok(())
}

pub async fn run(ctx: &Ctx, rep: &mut ShardReport) {
    let cache = CacheMode::for_shard(ctx.shard);
    rep.process_cfg = cache.name().into();
    let mut k = 0u64;
    while ctx.time_left() {
        let hseed = ctx.hist_seed(k);
        k += 1;
        let mut rng = Rng::new(hseed);
        let base = scratch_root().join(format!("k{:016x}", hseed));
        let (h, images) = match workload(hseed, cache, &mut rng).await {
            Ok(x) => x,
            Err(Stop::Inconclusive(r)) => {
                rep.inconclusive(&r.chars().take(60).collect::<String>());
                let _ = std::fs::remove_dir_all(&base);
                continue;
            }
            Err(Stop::Stall(x)) => {
                rep.inconclusive(&format!("stall:{x}"));
                let _ = std::fs::remove_dir_all(&base);
                continue;
            }
            Err(Stop::Violation(v)) => {
                rep.violation(v);
                let _ = std::fs::remove_dir_all(&base);
                continue;
            }
        };
        let _ = take_server_panics();
        rep.histories += 1;
        rep.op_n("workload_op", h.ops.len() as u64);
        let class = format!("{}|{}", h.cfg.class(cache), h.parts);
        rep.config_classes.insert(class.clone());
        let work = base.join("work");
        let mut kinds: Vec<&str> = vec![];
        let mut stop = false;
        for img in &images {
            if !ctx.time_left() && rep.events.get("images_recovered").copied().unwrap_or(0) > 200 {
                break;
            }
            rep.event("images_recovered");
            rep.event(&format!("image_after_{}", img.kind));
            if !kinds.contains(&img.kind.as_str()) {
                kinds.push(match img.kind.as_str() {
                    "log_write" => "log_write",
                    "index_write" => "index_write",
                    "persister_append" => "persister_append",
                    "persister_overwrite" => "persister_overwrite",
                    "segment_open" => "segment_open",
                    "segment_delete" => "segment_delete",
                    "partition_delete" => "partition_delete",
                    "log_write_nowait" => "log_write_nowait",
                    _ => "other",
                });
            }
            match recover(&h, img, None, cache, rep, &work, &mut rng).await {
                Ok(v) => {
                    if v.started {
                        rep.event("untorn_image_recovered_ok");
                    }
                }
                Err(v) => {
                    rep.violation(v);
                    stop = true;
                }
            }
            if stop {
                break;
            }
            // torn variants of the last write
            let do_torn = ctx.thorough() || rng.chance(1, 3);
            if do_torn && matches!(img.kind.as_str(), "log_write" | "index_write" | "persister_append" | "persister_overwrite" | "log_write_nowait") {
                let (prev, new) = if img.kind == "persister_overwrite" { (0, img.new_len) } else { (img.prev_len, img.new_len) };
                let lens = torn_lengths(prev, new, &mut rng);
                let lens: Vec<u64> = if ctx.thorough() { lens } else { lens.into_iter().filter(|_| rng.chance(1, 2)).collect() };
                for t in lens {
                    rep.event("torn_variants_recovered");
                    match recover(&h, img, Some(t), cache, rep, &work, &mut rng).await {
                        Ok(v) => {
                            if v.started {
                                rep.event("torn_image_recovered_ok");
                            }
                        }
                        Err(v) => {
                            rep.violation(v);
                            stop = true;
                            break;
                        }
                    }
                }
            }
            // remove_dir_all of the topic directory deletes "partitions" before the topic directory itself: the instant in between
            // has no file event of its own, it is derived from the image taken after a partition directory went away
            if !stop && img.kind == "partition_delete" && img.snap.inflight.starts_with("delete_topic") {
                rep.event("image_partitions_dir_removed");
                match recover(&h, img, Some(DIR_GONE), cache, rep, &work, &mut rng).await {
                    Ok(v) => {
                        if v.started {
                            rep.event("untorn_image_recovered_ok");
                        }
                    }
                    Err(v) => {
                        rep.violation(v);
                        stop = true;
                    }
                }
            }
            if stop {
                break;
            }
        }
        if !images.is_empty() {
            rep.histories_nontrivial += 1;
            kinds.sort();
            rep.shapes.insert(crate::world::shape_hash(&class, &kinds));
            if rep.samples.len() < 2 && !stop {
                rep.sample(json!({"history": format!("{:016x}", hseed), "config": class, "ops": h.ops, "images": images.len(),
                    "image_kinds": images.iter().map(|i| format!("{}:{}", i.kind, i.file.rsplit('/').next().unwrap_or(""))).collect::<Vec<_>>()}));
            }
        }
        let _ = std::fs::remove_dir_all(&base);
    }
    rep.extra.insert("required_events".into(), json!(["images_recovered", "torn_variants_recovered", "image_after_log_write", "image_after_index_write", "image_after_persister_append",
        "image_after_persister_overwrite", "image_after_segment_open", "durable_batches_demanded", "untorn_image_recovered_ok"]));
}
