//! C13: client and server agree on every request and response they exchange.
//! 1. structure-aware request round-trip through the SDK encoder and the server's decoder (hook H6),
//!    plus the journal (`EntryCommand`) and on-disk (`RetainedMessage`) encodings;
//! 2. end-to-end differential: entities with boundary values created over one transport, read back
//!    over TCP *and* HTTP, compared with each other and with what was sent;
//! 3. malformed frames on hostile connections while a healthy connection keeps working.

use crate::checks::Ctx;
use crate::inst::{scratch_root, take_server_panics, CacheMode, ServerInstance, StorageCfg};
use crate::raw::{GarbageOutcome, RawClient};
use crate::report::{ShardReport, Violation};
use crate::rng::Rng;
use crate::world::{timed, Stop, R};
use ahash::AHashMap;
use bytes::{BufMut, Bytes, BytesMut};
use iggy::binary::binary_client::BinaryClient;
use iggy::bytes_serializable::BytesSerializable;
use iggy::client::*;
use iggy::command::Command;
use iggy::compression::compression_algorithm::CompressionAlgorithm;
use iggy::consumer::Consumer;
use iggy::consumer_groups::create_consumer_group::CreateConsumerGroup;
use iggy::consumer_groups::delete_consumer_group::DeleteConsumerGroup;
use iggy::consumer_groups::get_consumer_group::GetConsumerGroup;
use iggy::consumer_groups::get_consumer_groups::GetConsumerGroups;
use iggy::consumer_groups::join_consumer_group::JoinConsumerGroup;
use iggy::consumer_groups::leave_consumer_group::LeaveConsumerGroup;
use iggy::consumer_offsets::delete_consumer_offset::DeleteConsumerOffset;
use iggy::consumer_offsets::get_consumer_offset::GetConsumerOffset;
use iggy::consumer_offsets::store_consumer_offset::StoreConsumerOffset;
use iggy::http::client::HttpClient;
use iggy::http::config::HttpClientConfig;
use iggy::identifier::Identifier;
use iggy::messages::flush_unsaved_buffer::FlushUnsavedBuffer;
use iggy::messages::poll_messages::{PollMessages, PollingStrategy};
use iggy::messages::send_messages::{Message, Partitioning, SendMessages};
use iggy::models::header::{HeaderKey, HeaderValue};
use iggy::models::permissions::{GlobalPermissions, Permissions, StreamPermissions, TopicPermissions};
use iggy::models::user_status::UserStatus;
use iggy::partitions::create_partitions::CreatePartitions;
use iggy::partitions::delete_partitions::DeletePartitions;
use iggy::personal_access_tokens::create_personal_access_token::CreatePersonalAccessToken;
use iggy::personal_access_tokens::delete_personal_access_token::DeletePersonalAccessToken;
use iggy::personal_access_tokens::get_personal_access_tokens::GetPersonalAccessTokens;
use iggy::personal_access_tokens::login_with_personal_access_token::LoginWithPersonalAccessToken;
use iggy::streams::create_stream::CreateStream;
use iggy::streams::delete_stream::DeleteStream;
use iggy::streams::get_stream::GetStream;
use iggy::streams::get_streams::GetStreams;
use iggy::streams::purge_stream::PurgeStream;
use iggy::streams::update_stream::UpdateStream;
use iggy::system::get_client::GetClient;
use iggy::system::get_clients::GetClients;
use iggy::system::get_me::GetMe;
use iggy::system::get_stats::GetStats;
use iggy::system::ping::Ping;
use iggy::topics::create_topic::CreateTopic;
use iggy::topics::delete_topic::DeleteTopic;
use iggy::topics::get_topic::GetTopic;
use iggy::topics::get_topics::GetTopics;
use iggy::topics::purge_topic::PurgeTopic;
use iggy::topics::update_topic::UpdateTopic;
use iggy::users::change_password::ChangePassword;
use iggy::users::create_user::CreateUser;
use iggy::users::delete_user::DeleteUser;
use iggy::users::get_user::GetUser;
use iggy::users::get_users::GetUsers;
use iggy::users::login_user::LoginUser;
use iggy::users::logout_user::LogoutUser;
use iggy::users::update_permissions::UpdatePermissions;
use iggy::users::update_user::UpdateUser;
use iggy::utils::byte_size::IggyByteSize;
use iggy::utils::duration::IggyDuration;
use iggy::utils::expiry::IggyExpiry;
use iggy::utils::topic_size::MaxTopicSize;
use iggy::validatable::Validatable;
use serde_json::{json, Value};
use server::state::command::EntryCommand;
use server::state::models::CreatePersonalAccessTokenWithHash;
use server::streaming::models::messages::RetainedMessage;
use server::verif::ServerCommand;
use std::collections::HashMap;
use std::panic::{catch_unwind, AssertUnwindSafe};
use std::str::FromStr;
use std::sync::Arc;

// -------------------------------------------------------------------------------------------------
// structure-aware generators

fn ascii(r: &mut Rng, len: usize) -> String {
    (0..len).map(|i| if i == 0 { (b'a' + r.below(26) as u8) as char } else { *r.pick(&['a', 'b', 'z', 'q', '0', '9', '-', '_', 'x']) }).collect()
}

fn blen(r: &mut Rng, min: usize, max: usize) -> usize {
    *r.pick(&[min, min, min + 1, min + 2, (min + max) / 2, max - 1, max, max]).min(&max).max(&min)
}

pub fn ident(r: &mut Rng) -> Identifier {
    if r.chance(1, 2) {
        {
        let rnd = 1 + r.below(1000) as u32;
        Identifier::numeric(*r.pick(&[1u32, 2, 255, 256, 65_536, u32::MAX - 1, u32::MAX, rnd])).unwrap()
        }
    } else {
        let l = blen(r, 1, 255);
        Identifier::named(&ascii(r, l)).unwrap()
    }
}

fn consumer(r: &mut Rng) -> Consumer {
    if r.chance(1, 2) {
        Consumer::new(ident(r))
    } else {
        Consumer::group(ident(r))
    }
}

fn partitioning(r: &mut Rng) -> Partitioning {
    match r.below(3) {
        0 => Partitioning::balanced(),
        1 => Partitioning::partition_id(*r.pick(&[1u32, 2, 1000, u32::MAX])),
        _ => {
            let l = blen(r, 1, 255);
            Partitioning::messages_key(&r.bytes(l)).unwrap()
        }
    }
}

fn strategy(r: &mut Rng) -> PollingStrategy {
    let v = *r.pick(&[0u64, 1, 2, 1_000_000, u64::MAX - 1, u64::MAX]);
    match r.below(5) {
        0 => PollingStrategy::offset(v),
        1 => PollingStrategy::timestamp(iggy::utils::timestamp::IggyTimestamp::from(v.min(u64::MAX / 4))),
        2 => PollingStrategy::first(),
        3 => PollingStrategy::last(),
        _ => PollingStrategy::next(),
    }
}

pub fn headers(r: &mut Rng) -> Option<HashMap<HeaderKey, HeaderValue>> {
    if r.chance(1, 3) {
        return None;
    }
    let mut h = HashMap::new();
    let n = r.range(1, 6);
    for i in 0..n {
        let kl = blen(r, 1, 255);
        let key = HeaderKey::new(&format!("{}{}", i, ascii(r, kl.saturating_sub(1).max(1))).chars().take(255).collect::<String>()).unwrap();
        let v = match r.below(15) {
            0 => {
                let l = blen(r, 1, 255);
                HeaderValue::from_raw(&r.bytes(l)).unwrap()
            }
            1 => {
                let l = blen(r, 1, 255);
                HeaderValue::from_str(&ascii(r, l)).unwrap()
            }
            2 => HeaderValue::from_bool(r.chance(1, 2)).unwrap(),
            3 => HeaderValue::from_int8(*r.pick(&[i8::MIN, -1, 0, 1, i8::MAX])).unwrap(),
            4 => HeaderValue::from_int16(*r.pick(&[i16::MIN, -1, 0, i16::MAX])).unwrap(),
            5 => HeaderValue::from_int32(*r.pick(&[i32::MIN, -1, 0, i32::MAX])).unwrap(),
            6 => HeaderValue::from_int64(*r.pick(&[i64::MIN, -1, 0, i64::MAX])).unwrap(),
            7 => HeaderValue::from_int128(*r.pick(&[i128::MIN, -1, 0, i128::MAX])).unwrap(),
            8 => HeaderValue::from_uint8(*r.pick(&[0u8, 1, u8::MAX])).unwrap(),
            9 => HeaderValue::from_uint16(*r.pick(&[0u16, 1, u16::MAX])).unwrap(),
            10 => HeaderValue::from_uint32(*r.pick(&[0u32, 1, u32::MAX])).unwrap(),
            11 => HeaderValue::from_uint64(*r.pick(&[0u64, 1, u64::MAX])).unwrap(),
            12 => HeaderValue::from_uint128(*r.pick(&[0u128, 1, u128::MAX])).unwrap(),
            13 => HeaderValue::from_float32(*r.pick(&[0.0f32, -1.5, f32::MAX, f32::MIN_POSITIVE])).unwrap(),
            _ => HeaderValue::from_float64(*r.pick(&[0.0f64, -1.5, f64::MAX, f64::MIN_POSITIVE])).unwrap(),
        };
        h.insert(key, v);
    }
    Some(h)
}

pub fn message(r: &mut Rng, uniq: u128) -> Message {
    let l = *r.pick(&[1usize, 2, 3, 11, 12, 13, 100, 1000, 50_000]);
    let mut p = r.bytes(l);
    if l >= 8 {
        p[..8].copy_from_slice(&(uniq as u64).to_le_bytes());
    }
    Message::new(Some(uniq.max(1)), Bytes::from(p), headers(r))
}

pub fn permissions(r: &mut Rng) -> Option<Permissions> {
    if r.chance(1, 4) {
        return None;
    }
    let b = |r: &mut Rng| r.chance(1, 2);
    let global = GlobalPermissions { manage_servers: b(r), read_servers: b(r), manage_users: b(r), read_users: b(r), manage_streams: b(r), read_streams: b(r), manage_topics: b(r), read_topics: b(r), poll_messages: b(r), send_messages: b(r) };
    let streams = if r.chance(1, 3) {
        None
    } else {
        let mut m = AHashMap::new();
        for _ in 0..r.range(1, 3) {
            let topics = if r.chance(1, 2) {
                None
            } else {
                let mut t = AHashMap::new();
                for _ in 0..r.range(1, 3) {
                    t.insert(*r.pick(&[1u32, 2, 7, u32::MAX]), TopicPermissions { manage_topic: b(r), read_topic: b(r), poll_messages: b(r), send_messages: b(r) });
                }
                Some(t)
            };
            m.insert(*r.pick(&[1u32, 2, 3, 9, u32::MAX]), StreamPermissions { manage_stream: b(r), read_stream: b(r), manage_topics: b(r), read_topics: b(r), poll_messages: b(r), send_messages: b(r), topics });
        }
        Some(m)
    };
    Some(Permissions { global, streams })
}

fn expiry(r: &mut Rng) -> IggyExpiry {
    match r.below(4) {
        0 => IggyExpiry::NeverExpire,
        1 => IggyExpiry::ServerDefault,
        _ => IggyExpiry::ExpireDuration(IggyDuration::from(*r.pick(&[1u64, 1_000_000, 86_400_000_000, u32::MAX as u64 * 1_000_000]))),
    }
}
fn maxsize(r: &mut Rng) -> MaxTopicSize {
    match r.below(4) {
        0 => MaxTopicSize::Unlimited,
        1 => MaxTopicSize::ServerDefault,
        _ => MaxTopicSize::Custom(IggyByteSize::from(*r.pick(&[1u64, 1_000_000_000, u64::MAX - 1]))),
    }
}
fn compression(r: &mut Rng) -> CompressionAlgorithm {
    if r.chance(1, 2) {
        CompressionAlgorithm::None
    } else {
        CompressionAlgorithm::Gzip
    }
}
fn status(r: &mut Rng) -> UserStatus {
    if r.chance(1, 2) {
        UserStatus::Active
    } else {
        UserStatus::Inactive
    }
}

fn cv(clause: &str, trig: &str, w: Value) -> Violation {
    Violation { property: "C13".into(), clause: clause.into(), signature: format!("C13:{clause}/{trig}"), witness: json!({"first_bad": w, "server_panics": take_server_panics()}) }
}

/// SDK encode -> framing -> server decode -> equal, valid on both sides.
fn rt<T>(rep: &mut ShardReport, name: &str, cmd: T, wrap: fn(T) -> ServerCommand) -> Option<Violation>
where
    T: Command + std::fmt::Debug,
{
    if cmd.validate().is_err() {
        rep.event(&format!("generated_command_rejected_by_client_validation/{name}"));
        return None;
    }
    let payload = cmd.to_bytes();
    let mut frame = BytesMut::with_capacity(4 + payload.len());
    frame.put_u32_le(cmd.code());
    frame.put_slice(&payload);
    let frame = frame.freeze();
    let shown = format!("{cmd:?}");
    let shown: String = shown.chars().take(600).collect();
    let expected = wrap(cmd);
    rep.eval("C13:request-roundtrip");
    rep.op(&format!("rt_{name}"));
    let decoded = catch_unwind(AssertUnwindSafe(|| ServerCommand::from_bytes(frame.clone())));
    match decoded {
        Err(_) => {
            let _ = take_server_panics();
            Some(cv("request-roundtrip", &format!("decoder-panicked/{name}"), json!({"command": name, "value": shown, "frame_len": frame.len()})))
        }
        Ok(Err(e)) => Some(cv("request-roundtrip", &format!("decoder-refused/{name}"), json!({"command": name, "value": shown, "error": e.to_string(), "payload_len": payload.len()}))),
        Ok(Ok(d)) => {
            if d != expected {
                let got: String = format!("{d:?}").chars().take(600).collect();
                return Some(cv("request-roundtrip", &format!("decoded-differs/{name}"), json!({"command": name, "sent": shown, "decoded": got})));
            }
            if let Err(e) = d.validate() {
                return Some(cv("request-roundtrip", &format!("server-validation-refuses/{name}"), json!({"command": name, "value": shown, "error": e.to_string()})));
            }
            None
        }
    }
}

/// one generated value of every command
fn roundtrip_all(r: &mut Rng, rep: &mut ShardReport, uniq: &mut u128) -> Vec<Violation> {
    let mut out: Vec<Option<Violation>> = vec![];
    let uname = |r: &mut Rng| {
        let l = blen(r, 3, 50);
        ascii(r, l)
    };
    let pw = |r: &mut Rng| {
        let l = blen(r, 3, 100);
        ascii(r, l)
    };
    let n255 = |r: &mut Rng| {
        let l = blen(r, 1, 255);
        ascii(r, l)
    };
    out.push(rt(rep, "ping", Ping {}, ServerCommand::Ping));
    out.push(rt(rep, "get_stats", GetStats {}, ServerCommand::GetStats));
    out.push(rt(rep, "get_me", GetMe {}, ServerCommand::GetMe));
    out.push(rt(rep, "get_client", GetClient { client_id: *r.pick(&[1u32, 2, u32::MAX]) }, ServerCommand::GetClient));
    out.push(rt(rep, "get_clients", GetClients {}, ServerCommand::GetClients));
    out.push(rt(rep, "get_user", GetUser { user_id: ident(r) }, ServerCommand::GetUser));
    out.push(rt(rep, "get_users", GetUsers {}, ServerCommand::GetUsers));
    out.push(rt(rep, "create_user", CreateUser { username: uname(r), password: pw(r), status: status(r), permissions: permissions(r) }, ServerCommand::CreateUser));
    out.push(rt(rep, "delete_user", DeleteUser { user_id: ident(r) }, ServerCommand::DeleteUser));
    out.push(rt(rep, "update_user", UpdateUser { user_id: ident(r), username: if r.chance(1, 2) { Some(uname(r)) } else { None }, status: if r.chance(1, 2) { Some(status(r)) } else { None } }, ServerCommand::UpdateUser));
    out.push(rt(rep, "update_permissions", UpdatePermissions { user_id: ident(r), permissions: permissions(r) }, ServerCommand::UpdatePermissions));
    out.push(rt(rep, "change_password", ChangePassword { user_id: ident(r), current_password: pw(r), new_password: pw(r) }, ServerCommand::ChangePassword));
    out.push(rt(rep, "login_user", LoginUser { username: uname(r), password: pw(r), version: if r.chance(1, 2) { Some("0.6.203".into()) } else { None }, context: if r.chance(1, 2) { Some(ascii(r, 10)) } else { None } }, ServerCommand::LoginUser));
    out.push(rt(rep, "logout_user", LogoutUser {}, ServerCommand::LogoutUser));
    out.push(rt(rep, "get_personal_access_tokens", GetPersonalAccessTokens {}, ServerCommand::GetPersonalAccessTokens));
    let tl = blen(r, 3, 30);
    out.push(rt(rep, "create_personal_access_token", CreatePersonalAccessToken { name: ascii(r, tl), expiry: expiry(r) }, ServerCommand::CreatePersonalAccessToken));
    let tl = blen(r, 3, 30);
    out.push(rt(rep, "delete_personal_access_token", DeletePersonalAccessToken { name: ascii(r, tl) }, ServerCommand::DeletePersonalAccessToken));
    let tl = blen(r, 1, 100);
    out.push(rt(rep, "login_with_personal_access_token", LoginWithPersonalAccessToken { token: ascii(r, tl) }, ServerCommand::LoginWithPersonalAccessToken));
    let nm = r.range(1, 5);
    let msgs: Vec<Message> = (0..nm)
        .map(|_| {
            *uniq += 1;
            message(r, *uniq)
        })
        .collect();
    out.push(rt(rep, "send_messages", SendMessages { stream_id: ident(r), topic_id: ident(r), partitioning: partitioning(r), messages: msgs }, ServerCommand::SendMessages));
    out.push(rt(
        rep,
        "poll_messages",
        PollMessages { consumer: consumer(r), stream_id: ident(r), topic_id: ident(r), partition_id: if r.chance(1, 2) { Some(*r.pick(&[1u32, 2, u32::MAX])) } else { None }, strategy: strategy(r), count: *r.pick(&[1u32, 10, u32::MAX]), auto_commit: r.chance(1, 2) },
        ServerCommand::PollMessages,
    ));
    out.push(rt(rep, "flush_unsaved_buffer", FlushUnsavedBuffer { stream_id: ident(r), topic_id: ident(r), partition_id: *r.pick(&[1u32, u32::MAX]), fsync: r.chance(1, 2) }, ServerCommand::FlushUnsavedBuffer));
    let pid = |r: &mut Rng| if r.chance(1, 2) { Some(*r.pick(&[1u32, 2, u32::MAX])) } else { None };
    out.push(rt(rep, "get_consumer_offset", GetConsumerOffset { consumer: consumer(r), stream_id: ident(r), topic_id: ident(r), partition_id: pid(r) }, ServerCommand::GetConsumerOffset));
    out.push(rt(rep, "store_consumer_offset", StoreConsumerOffset { consumer: consumer(r), stream_id: ident(r), topic_id: ident(r), partition_id: pid(r), offset: *r.pick(&[0u64, 1, u64::MAX]) }, ServerCommand::StoreConsumerOffset));
    out.push(rt(rep, "delete_consumer_offset", DeleteConsumerOffset { consumer: consumer(r), stream_id: ident(r), topic_id: ident(r), partition_id: pid(r) }, ServerCommand::DeleteConsumerOffset));
    out.push(rt(rep, "get_stream", GetStream { stream_id: ident(r) }, ServerCommand::GetStream));
    out.push(rt(rep, "get_streams", GetStreams {}, ServerCommand::GetStreams));
    out.push(rt(rep, "create_stream", CreateStream { stream_id: if r.chance(1, 2) { Some(*r.pick(&[1u32, 2, u32::MAX])) } else { None }, name: n255(r) }, ServerCommand::CreateStream));
    out.push(rt(rep, "delete_stream", DeleteStream { stream_id: ident(r) }, ServerCommand::DeleteStream));
    out.push(rt(rep, "update_stream", UpdateStream { stream_id: ident(r), name: n255(r) }, ServerCommand::UpdateStream));
    out.push(rt(rep, "purge_stream", PurgeStream { stream_id: ident(r) }, ServerCommand::PurgeStream));
    out.push(rt(rep, "get_topic", GetTopic { stream_id: ident(r), topic_id: ident(r) }, ServerCommand::GetTopic));
    out.push(rt(rep, "get_topics", GetTopics { stream_id: ident(r) }, ServerCommand::GetTopics));
    out.push(rt(
        rep,
        "create_topic",
        CreateTopic { stream_id: ident(r), topic_id: if r.chance(1, 2) { Some(*r.pick(&[1u32, u32::MAX])) } else { None }, partitions_count: *r.pick(&[0u32, 1, 2, 1000]), compression_algorithm: compression(r), message_expiry: expiry(r), max_topic_size: maxsize(r), replication_factor: *r.pick(&[None, Some(1u8), Some(255)]), name: n255(r) },
        ServerCommand::CreateTopic,
    ));
    out.push(rt(rep, "delete_topic", DeleteTopic { stream_id: ident(r), topic_id: ident(r) }, ServerCommand::DeleteTopic));
    out.push(rt(
        rep,
        "update_topic",
        UpdateTopic { stream_id: ident(r), topic_id: ident(r), compression_algorithm: compression(r), message_expiry: expiry(r), max_topic_size: maxsize(r), replication_factor: *r.pick(&[None, Some(1u8), Some(255)]), name: n255(r) },
        ServerCommand::UpdateTopic,
    ));
    out.push(rt(rep, "purge_topic", PurgeTopic { stream_id: ident(r), topic_id: ident(r) }, ServerCommand::PurgeTopic));
    out.push(rt(rep, "create_partitions", CreatePartitions { stream_id: ident(r), topic_id: ident(r), partitions_count: *r.pick(&[1u32, 2, 1000]) }, ServerCommand::CreatePartitions));
    out.push(rt(rep, "delete_partitions", DeletePartitions { stream_id: ident(r), topic_id: ident(r), partitions_count: *r.pick(&[1u32, 2, 1000]) }, ServerCommand::DeletePartitions));
    out.push(rt(rep, "get_consumer_group", GetConsumerGroup { stream_id: ident(r), topic_id: ident(r), group_id: ident(r) }, ServerCommand::GetConsumerGroup));
    out.push(rt(rep, "get_consumer_groups", GetConsumerGroups { stream_id: ident(r), topic_id: ident(r) }, ServerCommand::GetConsumerGroups));
    out.push(rt(rep, "create_consumer_group", CreateConsumerGroup { stream_id: ident(r), topic_id: ident(r), group_id: if r.chance(1, 2) { Some(*r.pick(&[1u32, u32::MAX])) } else { None }, name: n255(r) }, ServerCommand::CreateConsumerGroup));
    out.push(rt(rep, "delete_consumer_group", DeleteConsumerGroup { stream_id: ident(r), topic_id: ident(r), group_id: ident(r) }, ServerCommand::DeleteConsumerGroup));
    out.push(rt(rep, "join_consumer_group", JoinConsumerGroup { stream_id: ident(r), topic_id: ident(r), group_id: ident(r) }, ServerCommand::JoinConsumerGroup));
    out.push(rt(rep, "leave_consumer_group", LeaveConsumerGroup { stream_id: ident(r), topic_id: ident(r), group_id: ident(r) }, ServerCommand::LeaveConsumerGroup));
    // the journal encoding of the same values
    let entries: Vec<(&str, EntryCommand)> = vec![
        ("create_stream", EntryCommand::CreateStream(CreateStream { stream_id: Some(*r.pick(&[1u32, u32::MAX])), name: n255(r) })),
        ("update_stream", EntryCommand::UpdateStream(UpdateStream { stream_id: ident(r), name: n255(r) })),
        ("delete_stream", EntryCommand::DeleteStream(DeleteStream { stream_id: ident(r) })),
        ("purge_stream", EntryCommand::PurgeStream(PurgeStream { stream_id: ident(r) })),
        ("create_topic", EntryCommand::CreateTopic(CreateTopic { stream_id: ident(r), topic_id: Some(3), partitions_count: 3, compression_algorithm: compression(r), message_expiry: expiry(r), max_topic_size: maxsize(r), replication_factor: Some(1), name: n255(r) })),
        ("update_topic", EntryCommand::UpdateTopic(UpdateTopic { stream_id: ident(r), topic_id: ident(r), compression_algorithm: compression(r), message_expiry: expiry(r), max_topic_size: maxsize(r), replication_factor: Some(2), name: n255(r) })),
        ("delete_topic", EntryCommand::DeleteTopic(DeleteTopic { stream_id: ident(r), topic_id: ident(r) })),
        ("purge_topic", EntryCommand::PurgeTopic(PurgeTopic { stream_id: ident(r), topic_id: ident(r) })),
        ("create_partitions", EntryCommand::CreatePartitions(CreatePartitions { stream_id: ident(r), topic_id: ident(r), partitions_count: 7 })),
        ("delete_partitions", EntryCommand::DeletePartitions(DeletePartitions { stream_id: ident(r), topic_id: ident(r), partitions_count: 2 })),
        ("create_consumer_group", EntryCommand::CreateConsumerGroup(CreateConsumerGroup { stream_id: ident(r), topic_id: ident(r), group_id: Some(5), name: n255(r) })),
        ("delete_consumer_group", EntryCommand::DeleteConsumerGroup(DeleteConsumerGroup { stream_id: ident(r), topic_id: ident(r), group_id: ident(r) })),
        ("create_user", EntryCommand::CreateUser(CreateUser { username: uname(r), password: pw(r), status: status(r), permissions: permissions(r) })),
        ("update_user", EntryCommand::UpdateUser(UpdateUser { user_id: ident(r), username: Some(uname(r)), status: Some(status(r)) })),
        ("delete_user", EntryCommand::DeleteUser(DeleteUser { user_id: ident(r) })),
        ("change_password", EntryCommand::ChangePassword(ChangePassword { user_id: ident(r), current_password: pw(r), new_password: pw(r) })),
        ("update_permissions", EntryCommand::UpdatePermissions(UpdatePermissions { user_id: ident(r), permissions: permissions(r) })),
        ("create_personal_access_token", EntryCommand::CreatePersonalAccessToken(CreatePersonalAccessTokenWithHash { command: CreatePersonalAccessToken { name: ascii(r, 12), expiry: expiry(r) }, hash: ascii(r, 64) })),
        ("delete_personal_access_token", EntryCommand::DeletePersonalAccessToken(DeletePersonalAccessToken { name: ascii(r, 12) })),
    ];
    for (name, e) in entries {
        rep.eval("C13:journal-roundtrip");
        let shown: String = format!("{e:?}").chars().take(500).collect();
        let bytes = e.to_bytes();
        match catch_unwind(AssertUnwindSafe(|| EntryCommand::from_bytes(bytes.clone()))) {
            Err(_) => {
                let _ = take_server_panics();
                out.push(Some(cv("journal-roundtrip", &format!("decoder-panicked/{name}"), json!({"entry": shown}))));
            }
            Ok(Err(err)) => out.push(Some(cv("journal-roundtrip", &format!("decoder-refused/{name}"), json!({"entry": shown, "error": err.to_string()})))),
            Ok(Ok(d)) => {
                if d != e {
                    out.push(Some(cv("journal-roundtrip", &format!("decoded-differs/{name}"), json!({"entry": shown, "decoded": format!("{d:?}").chars().take(500).collect::<String>()}))));
                }
            }
        }
    }
    // the on-disk message encoding
    for _ in 0..4 {
        *uniq += 1;
        let m = message(r, *uniq);
        let (id, payload, hdrs) = (m.id, m.payload.clone(), m.headers.clone());
        let off = *r.pick(&[0u64, 1, u32::MAX as u64 + 5, u64::MAX - 1]);
        let ts = *r.pick(&[0u64, 1_790_000_000_000_000, u64::MAX]);
        let rm = RetainedMessage::new(off, ts, m);
        let mut buf = BytesMut::new();
        rm.extend(&mut buf);
        let bytes = buf.freeze();
        rep.eval("C13:disk-roundtrip");
        let body = bytes.slice(4..);
        let declared = u32::from_le_bytes(bytes[..4].try_into().unwrap()) as usize;
        let res = catch_unwind(AssertUnwindSafe(|| RetainedMessage::try_from_bytes(body.clone())));
        match res {
            Ok(Ok(d)) => {
                let pm = d.to_polled_message();
                let hdr_back = pm.as_ref().ok().and_then(|p| p.headers.clone());
                if declared != body.len() || d.id != id || d.offset != off || d.timestamp != ts || d.payload != payload || hdr_back != hdrs {
                    out.push(Some(cv("disk-roundtrip", "decoded-differs", json!({"offset": off, "timestamp": ts, "payload_len": payload.len(), "declared_len": declared, "body_len": body.len(), "headers": hdrs.map(|h| h.len())}))));
                }
            }
            Ok(Err(e)) => out.push(Some(cv("disk-roundtrip", "decoder-refused", json!({"error": e.to_string(), "payload_len": payload.len()})))),
            Err(_) => {
                let _ = take_server_panics();
                out.push(Some(cv("disk-roundtrip", "decoder-panicked", json!({"payload_len": payload.len()}))));
            }
        }
    }
    out.into_iter().flatten().collect()
}

// -------------------------------------------------------------------------------------------------
// 2. end-to-end differential over TCP and HTTP

fn sv(hist: u64, ops: &[String], clause: &str, trig: &str, d: Value) -> Stop {
    Stop::Violation(Violation { property: "C13".into(), clause: clause.into(), signature: format!("C13:{clause}/{trig}"), witness: json!({"history": hist, "ops": ops, "first_bad": {"detail": d}, "server_panics": take_server_panics()}) })
}

async fn differential(hseed: u64, cache: CacheMode, rep: &mut ShardReport) -> R<()> {
    let mut r = Rng::new(hseed);
    let mut cfg = StorageCfg::random(&mut r);
    cfg.no_wait = false;
    cfg.http = true;
    cfg.quic = hseed % 3 == 0;
    cfg.segment_size = 1_000_000_000;
    let dir = scratch_root().join(format!("d{:016x}", hseed));
    let inst = ServerInstance::start(&dir, &cfg, cache).await.map_err(|e| Stop::Inconclusive(format!("{e:?}")))?;
    let res = differential_inner(hseed, &mut r, &inst, rep).await;
    let _ = inst.stop(false).await;
    let _ = std::fs::remove_dir_all(&dir);
    res
}

/// The SDK's own QUIC client against the in-process QUIC listener (no reconnection: a lost connection is an error, not a retry loop).
pub async fn quic_client(addr: std::net::SocketAddr) -> Result<iggy::quic::client::QuicClient, String> {
    let mut qc = iggy::quic::config::QuicClientConfig::default();
    qc.server_address = addr.to_string();
    qc.reconnection.enabled = false;
    let c = iggy::quic::client::QuicClient::create(Arc::new(qc)).map_err(|e| format!("quic client: {e}"))?;
    match tokio::time::timeout(std::time::Duration::from_secs(30), Client::connect(&c)).await {
        Ok(Ok(())) => Ok(c),
        Ok(Err(e)) => Err(format!("quic connect: {e}")),
        Err(_) => Err("quic connect: no answer in 30 s".into()),
    }
}

async fn differential_inner(hseed: u64, r: &mut Rng, inst: &ServerInstance, rep: &mut ShardReport) -> R<()> {
    // The binary side of the differential is TCP (the harness' own framing client) or, in a third of the histories, the SDK's QUIC
    // client against the QUIC listener: same decoders and handlers, but its own request framing, sender and session handling.
    match inst.quic_addr {
        Some(addr) => {
            let quic = quic_client(addr).await.map_err(Stop::Inconclusive)?;
            let res = differential_body(hseed, r, inst, rep, &quic, "quic").await;
            let _ = tokio::time::timeout(std::time::Duration::from_secs(5), Client::disconnect(&quic)).await;
            if res.is_ok() {
                rep.event("differential_over_quic");
            }
            res
        }
        None => {
            let tcp = RawClient::connect(inst.tcp_addr).await.map_err(Stop::Inconclusive)?;
            let res = differential_body(hseed, r, inst, rep, &tcp, "tcp").await;
            if res.is_ok() {
                rep.event("differential_over_tcp");
            }
            res
        }
    }
}

async fn differential_body<B: BinaryClient + Client>(hseed: u64, r: &mut Rng, inst: &ServerInstance, rep: &mut ShardReport, tcp: &B, binary: &str) -> R<()> {
    let mut ops: Vec<String> = vec![format!("binary transport: {binary}")];
    timed("login", tcp.login_user("iggy", "iggy")).await?.map_err(|e| Stop::Inconclusive(e.to_string()))?;
    let http = HttpClient::create(Arc::new(HttpClientConfig { api_url: format!("http://{}", inst.http_addr.unwrap()), retries: 0 })).map_err(|e| Stop::Inconclusive(e.to_string()))?;
    timed("http login", http.login_user("iggy", "iggy")).await?.map_err(|e| Stop::Inconclusive(e.to_string()))?;
    let pick = |r: &mut Rng| r.chance(1, 2);
    // streams with boundary names, created over one transport, read over both, by id and by name
    let mut streams: Vec<(u32, String)> = vec![];
    for (i, l) in [1usize, 2, 3, 254, 255, 17].iter().enumerate() {
        let name = format!("{}{}", (b'a' + i as u8) as char, ascii(r, *l).chars().skip(1).collect::<String>());
        let via_http = pick(r);
        ops.push(format!("create_stream name_len={} via {}", name.len(), if via_http { "http" } else { "tcp" }));
        let c: &dyn Client = if via_http { &http } else { tcp };
        let sd = timed("create_stream", c.create_stream(&name, None)).await?;
        rep.eval("C13:e2e-request-accepted");
        let sd = match sd {
            Ok(s) => s,
            Err(e) => return Err(sv(hseed, &ops, "e2e-request-accepted", "create_stream", json!({"name_len": name.len(), "error": e.to_string()}))),
        };
        streams.push((sd.id, name.clone()));
        for (tn, cl) in [("tcp", tcp as &dyn Client), ("http", &http as &dyn Client)] {
            for idf in [Identifier::numeric(sd.id).unwrap(), Identifier::named(&name).unwrap()] {
                ops.push(format!("get_stream {idf} via {tn}"));
                rep.eval("C13:e2e-response-agrees");
                let g = timed("get_stream", cl.get_stream(&idf)).await?;
                match g {
                    Ok(Some(x)) if x.id == sd.id && x.name == name => {}
                    other => {
                        let shown = format!("{other:?}").chars().take(300).collect::<String>();
                        return Err(sv(hseed, &ops, "e2e-response-agrees", &format!("get_stream/{tn}"), json!({"asked": idf.to_string(), "expected_id": sd.id, "expected_name_len": name.len(), "got": shown})));
                    }
                }
            }
        }
    }
    // the second stream holds the topics, so that stream id and topic id differ (a swapped pair of ids must not go unnoticed)
    let s1 = Identifier::numeric(streams[1].0).unwrap();
    // topics with boundary settings
    let mut topics = vec![];
    for k in 0..4u32 {
        let l = blen(r, 1, 255);
        let name = format!("{}{}", (b'k' + k as u8) as char, ascii(r, l).chars().skip(1).collect::<String>());
        let parts = *r.pick(&[1u32, 1, 2, 5]);
        let exp = expiry(r);
        let ms = match r.below(3) {
            0 => MaxTopicSize::Unlimited,
            1 => MaxTopicSize::ServerDefault,
            _ => MaxTopicSize::Custom(IggyByteSize::from(*r.pick(&[1_000_000_000u64, 5_000_000_000]))),
        };
        let rf = *r.pick(&[None, Some(1u8), Some(255)]);
        let comp = compression(r);
        let via_http = pick(r);
        ops.push(format!("create_topic name_len={} parts={parts} expiry={exp} max={ms} rf={rf:?} via {}", name.len(), if via_http { "http" } else { "tcp" }));
        let c: &dyn Client = if via_http { &http } else { tcp };
        rep.eval("C13:e2e-request-accepted");
        let td = match timed("create_topic", c.create_topic(&s1, &name, parts, comp, rf, None, exp, ms)).await? {
            Ok(t) => t,
            Err(e) => return Err(sv(hseed, &ops, "e2e-request-accepted", "create_topic", json!({"name_len": name.len(), "error": e.to_string()}))),
        };
        let a = timed("get_topic", tcp.get_topic(&s1, &Identifier::numeric(td.id).unwrap())).await?;
        let b = timed("get_topic", http.get_topic(&s1, &Identifier::named(&name).unwrap())).await?;
        rep.eval("C13:e2e-response-agrees");
        let norm = |t: &iggy::models::topic::TopicDetails| json!({"id": t.id, "name": t.name, "parts": t.partitions_count, "expiry": t.message_expiry.to_string(), "max": t.max_topic_size.to_string(), "rf": t.replication_factor, "comp": t.compression_algorithm.to_string(), "partitions": t.partitions.len(), "created_at": t.created_at.as_micros()});
        match (&a, &b) {
            (Ok(Some(x)), Ok(Some(y))) if norm(x) == norm(y) && norm(x) == norm(&td) && x.name == name && x.partitions_count == parts && x.replication_factor == rf.unwrap_or(1) => {}
            _ => {
                let sa = format!("{a:?}").chars().take(400).collect::<String>();
                let sb = format!("{b:?}").chars().take(400).collect::<String>();
                return Err(sv(hseed, &ops, "e2e-response-agrees", "get_topic", json!({"tcp": sa, "http": sb, "created": norm(&td)})));
            }
        }
        topics.push((td.id, parts));
    }
    // users with nested permissions
    for k in 0..3 {
        let name = format!("cuser{k}{}", ascii(r, 6));
        let perms = permissions(r);
        let via_http = pick(r);
        ops.push(format!("create_user {name} via {}", if via_http { "http" } else { "tcp" }));
        let c: &dyn Client = if via_http { &http } else { tcp };
        rep.eval("C13:e2e-request-accepted");
        let ud = match timed("create_user", c.create_user(&name, "secret-password", status(r), perms.clone())).await? {
            Ok(u) => u,
            Err(e) => return Err(sv(hseed, &ops, "e2e-request-accepted", "create_user", json!({"error": e.to_string(), "permissions": serde_json::to_value(&perms).ok()}))),
        };
        let a = timed("get_user", tcp.get_user(&Identifier::numeric(ud.id).unwrap())).await?;
        let b = timed("get_user", http.get_user(&Identifier::named(&name).unwrap())).await?;
        rep.eval("C13:e2e-response-agrees");
        let ok = matches!((&a, &b), (Ok(Some(x)), Ok(Some(y))) if x.permissions == perms && y.permissions == perms && x.id == y.id && x.username == y.username && x.status == y.status && x.created_at == y.created_at);
        if !ok {
            return Err(sv(hseed, &ops, "e2e-response-agrees", "get_user", json!({"sent_permissions": serde_json::to_value(&perms).ok(), "tcp": format!("{a:?}").chars().take(500).collect::<String>(), "http": format!("{b:?}").chars().take(500).collect::<String>()})));
        }
    }
    // messages: every header kind, boundary payloads, every partitioning kind; polled over both transports
    let (tid, parts) = topics[0];
    let t1 = Identifier::numeric(tid).unwrap();
    let mut sent: HashMap<u128, Message> = HashMap::new();
    let mut uniq: u128 = (hseed as u128) << 32;
    for b in 0..8 {
        let n = r.range(1, 6);
        let mut msgs: Vec<Message> = (0..n)
            .map(|_| {
                uniq += 1;
                message(r, uniq)
            })
            .collect();
        let part = match r.below(3) {
            0 => Partitioning::balanced(),
            1 => Partitioning::partition_id(r.range(1, parts as u64) as u32),
            _ => {
                let l = blen(r, 1, 255);
                Partitioning::messages_key(&r.bytes(l)).unwrap()
            }
        };
        for m in &msgs {
            sent.insert(m.id, Message::new(Some(m.id), m.payload.clone(), m.headers.clone()));
        }
        let via_http = pick(r);
        ops.push(format!("send batch {b} n={n} via {}", if via_http { "http" } else { "tcp" }));
        let c: &dyn Client = if via_http { &http } else { tcp };
        rep.eval("C13:e2e-request-accepted");
        if let Err(e) = timed("send", c.send_messages(&s1, &t1, &part, &mut msgs)).await? {
            return Err(sv(hseed, &ops, "e2e-request-accepted", "send_messages", json!({"error": e.to_string(), "partitioning": format!("{:?}", part.kind)})));
        }
    }
    let who = Consumer::new(Identifier::numeric(77).unwrap());
    let mut seen = 0;
    for p in 1..=parts {
        let a = timed("poll", tcp.poll_messages(&s1, &t1, Some(p), &who, &PollingStrategy::offset(0), 1000, false)).await?;
        let b = timed("poll", http.poll_messages(&s1, &t1, Some(p), &who, &PollingStrategy::offset(0), 1000, false)).await?;
        ops.push(format!("poll partition {p} via tcp and http"));
        rep.eval("C13:e2e-response-agrees");
        let (a, b) = match (a, b) {
            (Ok(a), Ok(b)) => (a, b),
            (a, b) => return Err(sv(hseed, &ops, "e2e-response-agrees", "poll-error", json!({"tcp": format!("{:?}", a.err()), "http": format!("{:?}", b.err())}))),
        };
        if a.messages.len() != b.messages.len() || a.current_offset != b.current_offset || a.partition_id != b.partition_id {
            return Err(sv(hseed, &ops, "e2e-response-agrees", "poll-envelope", json!({"tcp": [a.partition_id as u64, a.current_offset, a.messages.len() as u64], "http": [b.partition_id as u64, b.current_offset, b.messages.len() as u64]})));
        }
        for (x, y) in a.messages.iter().zip(b.messages.iter()) {
            seen += 1;
            let orig = sent.get(&x.id);
            let same = x.offset == y.offset && x.id == y.id && x.payload == y.payload && x.headers == y.headers && x.checksum == y.checksum && x.timestamp == y.timestamp && x.state == y.state;
            let as_sent = orig.map(|o| o.payload == x.payload && o.headers == x.headers).unwrap_or(false);
            if !same || !as_sent {
                let trig = if !same { "poll-tcp-vs-http" } else { "poll-vs-sent" };
                return Err(sv(hseed, &ops, "e2e-response-agrees", trig, json!({"offset": x.offset, "id": x.id.to_string(), "payload_len": [x.payload.len(), y.payload.len(), orig.map(|o| o.payload.len()).unwrap_or(0)],
                    "headers_tcp": x.headers.as_ref().map(|h| h.len()), "headers_http": y.headers.as_ref().map(|h| h.len()), "headers_sent": orig.and_then(|o| o.headers.as_ref().map(|h| h.len()))})));
            }
        }
    }
    if seen != sent.len() {
        return Err(sv(hseed, &ops, "e2e-response-agrees", "messages-missing", json!({"sent": sent.len(), "polled": seen})));
    }
    // consumer offsets and groups across transports
    let g = timed("create_group", http.create_consumer_group(&s1, &t1, "diff-group", None)).await?;
    rep.eval("C13:e2e-request-accepted");
    let g = match g {
        Ok(g) => g,
        Err(e) => return Err(sv(hseed, &ops, "e2e-request-accepted", "create_consumer_group", json!({"error": e.to_string()}))),
    };
    let ga = timed("get_group", tcp.get_consumer_group(&s1, &t1, &Identifier::numeric(g.id).unwrap())).await?;
    rep.eval("C13:e2e-response-agrees");
    if !matches!(&ga, Ok(Some(x)) if x.id == g.id && x.name == "diff-group" && x.partitions_count == parts) {
        return Err(sv(hseed, &ops, "e2e-response-agrees", "get_consumer_group", json!({"http_created": [g.id, g.partitions_count], "tcp": format!("{ga:?}").chars().take(300).collect::<String>()})));
    }
    for (k, cons) in [Consumer::new(Identifier::numeric(5).unwrap()), Consumer::new(Identifier::named("named-consumer").unwrap()), Consumer::group(Identifier::numeric(g.id).unwrap())].into_iter().enumerate() {
        // the HTTP representation of a consumer has no kind (groups are a connection-oriented feature): group consumers are exercised over TCP only
        let is_group = k == 2;
        if is_group {
            timed("join", tcp.join_consumer_group(&s1, &t1, &Identifier::numeric(g.id).unwrap())).await?.map_err(|e| Stop::Inconclusive(e.to_string()))?;
        }
        let via_http = k % 2 == 0 && !is_group;
        let (w, rd): (&dyn Client, &dyn Client) = if is_group { (tcp, tcp) } else if via_http { (&http, tcp) } else { (tcp, &http) };
        ops.push(format!("store offset consumer#{k} via {}", if via_http { "http" } else { "tcp" }));
        rep.eval("C13:e2e-request-accepted");
        if let Err(e) = timed("store", w.store_consumer_offset(&cons, &s1, &t1, Some(1), 0)).await? {
            return Err(sv(hseed, &ops, "e2e-request-accepted", "store_consumer_offset", json!({"consumer": cons.to_string(), "error": e.to_string()})));
        }
        let o = timed("get_offset", rd.get_consumer_offset(&cons, &s1, &t1, Some(1))).await?;
        rep.eval("C13:e2e-response-agrees");
        if !matches!(&o, Ok(Some(x)) if x.stored_offset == 0 && x.partition_id == 1) {
            return Err(sv(hseed, &ops, "e2e-response-agrees", "get_consumer_offset", json!({"consumer": cons.to_string(), "got": format!("{o:?}")})));
        }
    }
    // requests over HTTP that are JSON but not valid requests (wrong types, out-of-range numbers, violated limits), sent with root's token:
    // each must be refused, and the catalogue must be what it was
    {
        use iggy::http::HttpTransport;
        let long = "n".repeat(256);
        let t1s = format!("/streams/{}/topics", streams[1].0);
        let t1m = format!("/streams/{}/topics/{}/messages", streams[1].0, tid);
        let t1o = format!("/streams/{}/topics/{}/consumer-offsets", streams[1].0, tid);
        let cases: Vec<(&str, String, Value)> = vec![
            ("post", "/streams".into(), json!({"name": 5})),
            ("post", "/streams".into(), json!({})),
            ("post", "/streams".into(), json!({"name": ""})),
            ("post", "/streams".into(), json!({"name": long})),
            ("post", "/streams".into(), json!({"stream_id": -1, "name": "negative-id"})),
            ("post", "/streams".into(), json!({"stream_id": 4294967296u64, "name": "id-too-big"})),
            ("post", "/streams".into(), json!({"stream_id": "seven", "name": "id-is-text"})),
            ("post", "/streams".into(), json!([1, 2, 3])),
            ("post", t1s.clone(), json!({"name": "t-bad-count", "partitions_count": "two", "compression_algorithm": "none", "message_expiry": 0, "max_topic_size": 0})),
            ("post", t1s.clone(), json!({"name": "t-too-many", "partitions_count": 1001, "compression_algorithm": "none", "message_expiry": 0, "max_topic_size": 0})),
            ("post", t1s.clone(), json!({"name": "t-bad-compression", "partitions_count": 1, "compression_algorithm": "lz77", "message_expiry": 0, "max_topic_size": 0})),
            ("post", t1s.clone(), json!({"name": "", "partitions_count": 1, "compression_algorithm": "none", "message_expiry": 0, "max_topic_size": 0})),
            ("post", t1s.clone(), json!({"name": "t-bad-rf", "partitions_count": 1, "compression_algorithm": "none", "message_expiry": 0, "max_topic_size": 0, "replication_factor": 256})),
            ("post", "/users".into(), json!({"username": "ab", "password": "long-enough", "status": "active"})),
            ("post", "/users".into(), json!({"username": "valid-name", "password": "pw", "status": "active"})),
            ("post", "/users".into(), json!({"username": "valid-name", "password": "long-enough", "status": "sleeping"})),
            ("post", "/users".into(), json!({"username": "valid-name", "password": "long-enough", "status": "active", "permissions": "all"})),
            ("put", t1o.clone(), json!({"offset": "ten"})),
            ("put", t1o.clone(), json!({"partition_id": "one", "offset": 1})),
            ("post", t1m.clone(), json!({"partitioning": {"kind": "nowhere", "value": ""}, "messages": [{"payload": "aGVsbG8="}]})),
            ("post", t1m.clone(), json!({"partitioning": {"kind": "partition_id", "value": "AQAAAA=="}, "messages": [{"payload": "!!!not-base64!!!"}]})),
            ("post", t1m.clone(), json!({"partitioning": {"kind": "partition_id", "value": "AQAAAA=="}, "messages": []})),
            ("post", t1m.clone(), json!({"partitioning": {"kind": "partition_id", "value": "AQAAAA=="}, "messages": "many"})),
        ];
        let snap = |s: &Vec<iggy::models::stream::Stream>, u: usize| {
            let mut x: Vec<(u32, String, u32, u64)> = s.iter().map(|s| (s.id, s.name.clone(), s.topics_count, s.messages_count)).collect();
            x.sort();
            json!({"streams": x, "users": u})
        };
        let before = snap(&timed("get_streams", tcp.get_streams()).await?.map_err(|e| Stop::Inconclusive(e.to_string()))?, timed("get_users", tcp.get_users()).await?.map_err(|e| Stop::Inconclusive(e.to_string()))?.len());
        for (method, path, body) in cases {
            ops.push(format!("http {method} {path} {}", body.to_string().chars().take(90).collect::<String>()));
            rep.eval("C13:malformed-http-refused");
            rep.op("hostile_http_request");
            let res = match method {
                "post" => timed("http post", http.post(&path, &body)).await?,
                _ => timed("http put", http.put(&path, &body)).await?,
            };
            if let Ok(resp) = res {
                let after = snap(&timed("get_streams", tcp.get_streams()).await?.map_err(|e| Stop::Inconclusive(e.to_string()))?, timed("get_users", tcp.get_users()).await?.map_err(|e| Stop::Inconclusive(e.to_string()))?.len());
                return Err(sv(hseed, &ops, "malformed-http-refused", &format!("accepted/{}", path.rsplit('/').next().unwrap_or("")), json!({"method": method, "path": path, "body": body, "status": resp.status().as_u16(), "catalogue_changed": after != before})));
            }
            rep.event("hostile_http_request_refused");
        }
        let after = snap(&timed("get_streams", tcp.get_streams()).await?.map_err(|e| Stop::Inconclusive(e.to_string()))?, timed("get_users", tcp.get_users()).await?.map_err(|e| Stop::Inconclusive(e.to_string()))?.len());
        rep.eval("C13:catalogue-untouched");
        if after != before {
            return Err(sv(hseed, &ops, "catalogue-untouched", "changed-by-refused-http-requests", json!({"before": before, "after": after})));
        }
    }
    // the remaining response types, each decoded by the SDK from both transports: tokens, lists, group and client details
    {
        let now_us = iggy::utils::timestamp::IggyTimestamp::now().as_micros();
        for (name, exp) in [("tok-hour", IggyExpiry::ExpireDuration(IggyDuration::from(3_600_000_000u64))), ("tok-never", IggyExpiry::NeverExpire), ("tok-day", IggyExpiry::ExpireDuration(IggyDuration::from(86_400_000_000u64)))] {
            let via_http = pick(r);
            ops.push(format!("create_personal_access_token {name} via {}", if via_http { "http" } else { "tcp" }));
            let c: &dyn Client = if via_http { &http } else { tcp };
            rep.eval("C13:e2e-request-accepted");
            match timed("create_token", c.create_personal_access_token(name, exp)).await? {
                Ok(t) if !t.token.is_empty() => {}
                other => return Err(sv(hseed, &ops, "e2e-request-accepted", "create_personal_access_token", json!({"name": name, "got": format!("{other:?}").chars().take(200).collect::<String>()}))),
            }
        }
        let a = timed("get_tokens", tcp.get_personal_access_tokens()).await?;
        let b = timed("get_tokens", http.get_personal_access_tokens()).await?;
        rep.eval("C13:e2e-response-agrees");
        let norm = |v: &Vec<iggy::models::personal_access_token::PersonalAccessTokenInfo>| {
            let mut x: Vec<(String, Option<u64>)> = v.iter().map(|t| (t.name.clone(), t.expiry_at.map(|e| e.as_micros()))).collect();
            x.sort();
            x
        };
        let plausible = |v: &Vec<(String, Option<u64>)>| {
            v.iter().all(|(n, e)| match (n.as_str(), e) {
                ("tok-never", None) => true,
                ("tok-hour", Some(e)) => *e >= now_us + 3_500_000_000 && *e <= now_us + 3_700_000_000 + 120_000_000,
                ("tok-day", Some(e)) => *e >= now_us + 86_300_000_000 && *e <= now_us + 86_500_000_000 + 120_000_000,
                _ => false,
            }) && v.len() == 3
        };
        match (&a, &b) {
            (Ok(x), Ok(y)) if norm(x) == norm(y) && plausible(&norm(x)) => {}
            _ => return Err(sv(hseed, &ops, "e2e-response-agrees", "get_personal_access_tokens", json!({"created_at_about_us": now_us, "tcp": format!("{a:?}").chars().take(400).collect::<String>(), "http": format!("{b:?}").chars().take(400).collect::<String>()}))),
        }
        // users list
        let a = timed("get_users", tcp.get_users()).await?;
        let b = timed("get_users", http.get_users()).await?;
        rep.eval("C13:e2e-response-agrees");
        let norm = |v: &Vec<iggy::models::user_info::UserInfo>| {
            let mut x: Vec<(u32, String, String, u64)> = v.iter().map(|u| (u.id, u.username.clone(), u.status.to_string(), u.created_at.as_micros())).collect();
            x.sort();
            x
        };
        match (&a, &b) {
            (Ok(x), Ok(y)) if norm(x) == norm(y) && x.len() == 4 => {}
            _ => return Err(sv(hseed, &ops, "e2e-response-agrees", "get_users", json!({"tcp": format!("{a:?}").chars().take(400).collect::<String>(), "http": format!("{b:?}").chars().take(400).collect::<String>()}))),
        }
        // topics list
        let a = timed("get_topics", tcp.get_topics(&s1)).await?;
        let b = timed("get_topics", http.get_topics(&s1)).await?;
        rep.eval("C13:e2e-response-agrees");
        let norm = |v: &Vec<iggy::models::topic::Topic>| {
            let mut x: Vec<Value> = v.iter().map(|t| json!([t.id, t.name, t.size.as_bytes_u64(), t.message_expiry.to_string(), t.compression_algorithm.to_string(), t.max_topic_size.to_string(), t.replication_factor, t.messages_count, t.partitions_count, t.created_at.as_micros()])).collect();
            x.sort_by_key(|v| v[0].as_u64());
            x
        };
        match (&a, &b) {
            (Ok(x), Ok(y)) if norm(x) == norm(y) && x.len() == topics.len() => {}
            _ => return Err(sv(hseed, &ops, "e2e-response-agrees", "get_topics", json!({"tcp": format!("{a:?}").chars().take(500).collect::<String>(), "http": format!("{b:?}").chars().take(500).collect::<String>()}))),
        }
        // consumer groups list and details (the TCP connection is a member)
        let a = timed("get_groups", tcp.get_consumer_groups(&s1, &t1)).await?;
        let b = timed("get_groups", http.get_consumer_groups(&s1, &t1)).await?;
        rep.eval("C13:e2e-response-agrees");
        let norm = |v: &Vec<iggy::models::consumer_group::ConsumerGroup>| {
            let mut x: Vec<(u32, String, u32, u32)> = v.iter().map(|g| (g.id, g.name.clone(), g.partitions_count, g.members_count)).collect();
            x.sort();
            x
        };
        match (&a, &b) {
            (Ok(x), Ok(y)) if norm(x) == norm(y) && x.len() == 1 && x[0].members_count == 1 => {}
            _ => return Err(sv(hseed, &ops, "e2e-response-agrees", "get_consumer_groups", json!({"tcp": format!("{a:?}"), "http": format!("{b:?}")}))),
        }
        let gid = Identifier::named("diff-group").unwrap();
        let a = timed("get_group", tcp.get_consumer_group(&s1, &t1, &gid)).await?;
        let b = timed("get_group", http.get_consumer_group(&s1, &t1, &gid)).await?;
        rep.eval("C13:e2e-response-agrees");
        let norm = |g: &iggy::models::consumer_group::ConsumerGroupDetails| {
            let mut m: Vec<(u32, u32, Vec<u32>)> = g.members.iter().map(|m| { let mut p = m.partitions.clone(); p.sort(); (m.id, m.partitions_count, p) }).collect();
            m.sort();
            json!([g.id, g.name, g.partitions_count, g.members_count, m])
        };
        match (&a, &b) {
            (Ok(Some(x)), Ok(Some(y))) if norm(x) == norm(y) && x.members.len() == 1 && x.members[0].partitions.len() as u32 == parts => {}
            _ => return Err(sv(hseed, &ops, "e2e-response-agrees", "get_consumer_group_details", json!({"tcp": format!("{a:?}"), "http": format!("{b:?}"), "partitions": parts}))),
        }
        // client details: the TCP connection as seen by itself (get_me), by id over TCP and by id over HTTP
        let me = timed("get_me", tcp.get_me()).await?;
        rep.eval("C13:e2e-response-agrees");
        let Ok(me) = me else {
            return Err(sv(hseed, &ops, "e2e-response-agrees", "get_me", json!({"tcp": format!("{me:?}")})));
        };
        let a = timed("get_client", tcp.get_client(me.client_id)).await?;
        let b = timed("get_client", http.get_client(me.client_id)).await?;
        let norm = |c: &iggy::models::client_info::ClientInfoDetails| {
            let mut g: Vec<(u32, u32, u32)> = c.consumer_groups.iter().map(|g| (g.stream_id, g.topic_id, g.group_id)).collect();
            g.sort();
            json!([c.client_id, c.user_id, c.address, c.transport, c.consumer_groups_count, g])
        };
        match (&a, &b) {
            (Ok(Some(x)), Ok(Some(y))) if norm(x) == norm(y) && norm(x) == norm(&me) && x.user_id == Some(1) && x.consumer_groups_count == 1 && x.consumer_groups.len() == 1 && x.transport.to_lowercase() == binary => {}
            _ => return Err(sv(hseed, &ops, "e2e-response-agrees", "get_client", json!({"get_me": norm(&me), "tcp": format!("{a:?}"), "http": format!("{b:?}")}))),
        }
    }
    // statistics and lists over both transports
    let a = timed("get_stats", tcp.get_stats()).await?;
    let b = timed("get_stats", http.get_stats()).await?;
    rep.eval("C13:e2e-response-agrees");
    match (&a, &b) {
        (Ok(x), Ok(y)) if x.streams_count == y.streams_count && x.topics_count == y.topics_count && x.partitions_count == y.partitions_count && x.segments_count == y.segments_count && x.messages_count == y.messages_count && x.messages_size_bytes == y.messages_size_bytes && x.consumer_groups_count == y.consumer_groups_count && x.streams_count as usize == streams.len() => {}
        _ => return Err(sv(hseed, &ops, "e2e-response-agrees", "get_stats", json!({"tcp": format!("{a:?}").chars().take(400).collect::<String>(), "http": format!("{b:?}").chars().take(400).collect::<String>()}))),
    }
    let a = timed("get_streams", tcp.get_streams()).await?;
    let b = timed("get_streams", http.get_streams()).await?;
    rep.eval("C13:e2e-response-agrees");
    let norm = |v: &Vec<iggy::models::stream::Stream>| {
        let mut x: Vec<(u32, String, u32, u64, u64)> = v.iter().map(|s| (s.id, s.name.clone(), s.topics_count, s.messages_count, s.size.as_bytes_u64())).collect();
        x.sort();
        x
    };
    match (&a, &b) {
        (Ok(x), Ok(y)) if norm(x) == norm(y) && x.len() == streams.len() => {}
        _ => return Err(sv(hseed, &ops, "e2e-response-agrees", "get_streams", json!({"tcp": format!("{a:?}").chars().take(300).collect::<String>(), "http": format!("{b:?}").chars().take(300).collect::<String>()}))),
    }
    let a = timed("get_clients", tcp.get_clients()).await?;
    let b = timed("get_clients", http.get_clients()).await?;
    rep.eval("C13:e2e-response-agrees");
    let ids = |v: &Vec<iggy::models::client_info::ClientInfo>| {
        let mut x: Vec<u32> = v.iter().map(|c| c.client_id).collect();
        x.sort();
        x
    };
    match (&a, &b) {
        (Ok(x), Ok(y)) if ids(x) == ids(y) && !x.is_empty() => {}
        _ => return Err(sv(hseed, &ops, "e2e-response-agrees", "get_clients", json!({"tcp": format!("{a:?}").chars().take(300).collect::<String>(), "http": format!("{b:?}").chars().take(300).collect::<String>()}))),
    }
    rep.event("differential_history");
    if rep.samples.len() < 3 {
        rep.sample(json!({"differential_history": hseed, "operations": ops.len(), "excerpt": ops.iter().step_by(9).take(12).map(|o| o.chars().take(120).collect::<String>()).collect::<Vec<_>>(), "messages_compared": sent.len()}));
    }
    rep.op_n("e2e_operation", ops.len() as u64);
    Ok(())
}

// -------------------------------------------------------------------------------------------------
// 3. malformed frames

/// Mirrors the server's framing of the byte stream of one hostile connection (4-byte little-endian length, then that many bytes) and
/// zeroes the most significant byte of every length prefix, wherever in the stream it falls: the server allocates what a prefix announces
/// before it reads on, and a stray prefix in the tail of a random frame must not announce gigabytes (see the assumptions of this check).
#[derive(Default)]
struct Framing {
    owed: u64,
    prefix: Vec<u8>,
}

impl Framing {
    fn tame(&mut self, bytes: &mut [u8]) {
        let mut i = 0;
        while i < bytes.len() {
            if self.owed > 0 {
                let take = self.owed.min((bytes.len() - i) as u64);
                i += take as usize;
                self.owed -= take;
                continue;
            }
            if self.prefix.len() == 3 {
                bytes[i] = 0;
            }
            self.prefix.push(bytes[i]);
            i += 1;
            if self.prefix.len() == 4 {
                self.owed = u32::from_le_bytes(self.prefix[..].try_into().unwrap()) as u64;
                self.prefix.clear();
            }
        }
    }
}

fn snapshot_val(streams: &[iggy::models::stream::Stream], users: usize) -> Value {
    let mut x: Vec<(u32, String, u32, u64)> = streams.iter().map(|s| (s.id, s.name.clone(), s.topics_count, s.messages_count)).collect();
    x.sort();
    json!({"streams": x, "users": users})
}

async fn hostile(hseed: u64, cache: CacheMode, rep: &mut ShardReport) -> R<()> {
    let mut r = Rng::new(hseed ^ 0xBAD);
    let mut cfg = StorageCfg::random(&mut r);
    cfg.no_wait = false;
    let dir = scratch_root().join(format!("m{:016x}", hseed));
    let inst = ServerInstance::start(&dir, &cfg, cache).await.map_err(|e| Stop::Inconclusive(format!("{e:?}")))?;
    let res = hostile_inner(hseed, &mut r, &inst, rep).await;
    let _ = inst.stop(false).await;
    let _ = std::fs::remove_dir_all(&dir);
    res
}

async fn hostile_inner(hseed: u64, r: &mut Rng, inst: &ServerInstance, rep: &mut ShardReport) -> R<()> {
    let mut ops: Vec<String> = vec![];
    let good = RawClient::connect(inst.tcp_addr).await.map_err(Stop::Inconclusive)?;
    timed("login", good.login_user("iggy", "iggy")).await?.map_err(|e| Stop::Inconclusive(e.to_string()))?;
    let one = Identifier::numeric(1).unwrap();
    timed("create_stream", good.create_stream("healthy", Some(1))).await?.map_err(|e| Stop::Inconclusive(e.to_string()))?;
    timed("create_topic", good.create_topic(&one, "healthy", 1, CompressionAlgorithm::None, None, Some(1), IggyExpiry::NeverExpire, MaxTopicSize::Unlimited)).await?.map_err(|e| Stop::Inconclusive(e.to_string()))?;
    timed("create_user", good.create_user("nobody", "password-1234", UserStatus::Active, None)).await?.map_err(|e| Stop::Inconclusive(e.to_string()))?;
    let two = Identifier::numeric(2).unwrap();
    timed("create_topic", good.create_topic(&one, "grouped", 2, CompressionAlgorithm::None, None, Some(2), IggyExpiry::NeverExpire, MaxTopicSize::Unlimited)).await?.map_err(|e| Stop::Inconclusive(e.to_string()))?;
    timed("create_group", good.create_consumer_group(&one, &two, "members", Some(1))).await?.map_err(|e| Stop::Inconclusive(e.to_string()))?;
    timed("join", good.join_consumer_group(&one, &two, &one)).await?.map_err(|e| Stop::Inconclusive(e.to_string()))?;
    let mut healthy_sent: Vec<Bytes> = vec![];
    let who = Consumer::new(Identifier::numeric(3).unwrap());
    let before = {
        let s = timed("get_streams", good.get_streams()).await?.map_err(|e| Stop::Inconclusive(e.to_string()))?;
        let u = timed("get_users", good.get_users()).await?.map_err(|e| Stop::Inconclusive(e.to_string()))?;
        snapshot_val(&s, u.len())
    };
    // a valid frame to mutate: send_messages to the healthy topic
    let valid_send = {
        let m = vec![Message::new(Some(1), Bytes::from_static(b"hostile-valid-frame"), None)];
        let cmd = SendMessages { stream_id: one.clone(), topic_id: one.clone(), partitioning: Partitioning::partition_id(1), messages: m };
        let p = cmd.to_bytes();
        let mut f = BytesMut::new();
        f.put_u32_le((p.len() + 4) as u32);
        f.put_u32_le(cmd.code());
        f.put_slice(&p);
        f.freeze()
    };
    for variant in ["unauthenticated", "no-permissions"] {
        let mut conn = RawClient::connect(inst.tcp_addr).await.map_err(Stop::Inconclusive)?;
        if variant == "no-permissions" {
            timed("login", conn.login_user("nobody", "password-1234")).await?.map_err(|e| Stop::Inconclusive(e.to_string()))?;
        }
        let frames = if variant == "unauthenticated" { 40 } else { 20 };
        let mut framing = Framing::default();
        for k in 0..frames {
            let (label, bytes): (&str, Vec<u8>) = match r.below(7) {
                0 => {
                    let l = r.range(1, 64) as usize;
                    let mut b = r.bytes(l);
                    if b.len() >= 4 {
                        // announced frame lengths stay below 16 MiB: the server allocates what the prefix announces before it reads
                        // (a resource question outside this property), and gigabyte allocations in 16 shards starve the machine
                        b[3] = 0;
                        if r.chance(1, 2) {
                            b[2] = 0;
                        }
                    }
                    ("random-bytes", b)
                }
                1 => {
                    // length prefix shorter than the payload that follows
                    let bl = r.range(8, 64) as usize;
                    let body = r.bytes(bl);
                    let mut f = ((body.len() / 2) as u32).to_le_bytes().to_vec();
                    f.extend_from_slice(&body);
                    ("length-too-short", f)
                }
                2 => {
                    // valid code, random payload
                    let code = *r.pick(&[10u32, 20, 21, 22, 31, 33, 100, 101, 120, 121, 200, 201, 202, 300, 302, 303, 402, 600, 602, 604]);
                    let bl = r.range(0, 80) as usize;
                    let body = r.bytes(bl);
                    let mut f = ((body.len() + 4) as u32).to_le_bytes().to_vec();
                    f.extend_from_slice(&code.to_le_bytes());
                    f.extend_from_slice(&body);
                    ("valid-code-random-payload", f)
                }
                3 => {
                    // valid frame truncated inside the payload, with a matching (shorter) length prefix
                    let cut = r.range(9, valid_send.len() as u64 - 1) as usize;
                    let mut f = ((cut - 4) as u32).to_le_bytes().to_vec();
                    f.extend_from_slice(&valid_send[4..cut]);
                    ("valid-frame-truncated", f)
                }
                4 => {
                    // bit-flipped valid frame (never the length prefix)
                    let mut f = valid_send.to_vec();
                    let at = r.range(4, f.len() as u64 - 1) as usize;
                    f[at] ^= 1 << r.below(8);
                    ("valid-frame-bit-flipped", f)
                }
                5 => {
                    // zero-length and tiny frames
                    let n = r.below(4) as u32;
                    let mut f = n.to_le_bytes().to_vec();
                    f.extend_from_slice(&r.bytes(n as usize));
                    ("tiny-frame", f)
                }
                _ => {
                    // unknown command code
                    let bl = r.range(0, 16) as usize;
                    let body = r.bytes(bl);
                    let mut f = ((body.len() + 4) as u32).to_le_bytes().to_vec();
                    f.extend_from_slice(&(900_000 + r.below(1000) as u32).to_le_bytes());
                    f.extend_from_slice(&body);
                    ("unknown-code", f)
                }
            };
            let mut bytes = bytes;
            framing.tame(&mut bytes);
            ops.push(format!("{variant}: frame #{k} {label} ({} bytes)", bytes.len()));
            rep.op(&format!("hostile_{label}"));
            let out = conn.send_garbage(&bytes, 80).await;
            rep.eval("C13:malformed-frame-answered");
            match out {
                GarbageOutcome::Reply { status, .. } => {
                    rep.event("hostile_frame_error_reply");
                    let code = if bytes.len() >= 8 { u32::from_le_bytes(bytes[4..8].try_into().unwrap()) } else { 0 };
                    // a random payload can happen to be a well-formed request (four random bytes after the get_client code are a client id):
                    // that is not a malformed frame, and who may send it is C09's question, not this clause's
                    let well_formed = bytes.len() >= 8
                        && catch_unwind(AssertUnwindSafe(|| ServerCommand::from_bytes(Bytes::copy_from_slice(&bytes[4..])).map(|c| c.validate().is_ok()).unwrap_or(false))).unwrap_or(false);
                    if well_formed {
                        let _ = take_server_panics();
                        rep.event("hostile_frame_was_a_well_formed_request(not judged)");
                    }
                    if status == 0 && !well_formed && !(code == 1 || (variant == "no-permissions" && matches!(code, 1 | 10 | 22 | 39 | 41 | 42 | 43 | 44))) {
                        // an OK answer to something that is not a harmless request of this connection's own
                        let after = timed("get_streams", good.get_streams()).await?.map_err(|e| Stop::Inconclusive(e.to_string()))?;
                        let u = timed("get_users", good.get_users()).await?.map_err(|e| Stop::Inconclusive(e.to_string()))?;
                        if snapshot_val(&after, u.len()) != before || variant == "unauthenticated" {
                            return Err(sv(hseed, &ops, "malformed-frame-answered", &format!("accepted/{variant}/{label}"), json!({"frame_hex": hex(&bytes), "status": status, "command_code": code})));
                        }
                    }
                }
                GarbageOutcome::Closed => {
                    rep.event("hostile_connection_closed");
                    framing = Framing::default();
                    conn = RawClient::connect(inst.tcp_addr).await.map_err(Stop::Inconclusive)?;
                    if variant == "no-permissions" {
                        timed("login", conn.login_user("nobody", "password-1234")).await?.map_err(|e| Stop::Inconclusive(e.to_string()))?;
                    }
                }
                GarbageOutcome::NoReply => {
                    // the server is waiting for the rest of a frame whose prefix promised more: a hostile client just goes away
                    rep.event("hostile_frame_left_server_waiting");
                    framing = Framing::default();
                    conn = RawClient::connect(inst.tcp_addr).await.map_err(Stop::Inconclusive)?;
                    if variant == "no-permissions" {
                        timed("login", conn.login_user("nobody", "password-1234")).await?.map_err(|e| Stop::Inconclusive(e.to_string()))?;
                    }
                }
            }
            // the healthy connection keeps working, model-checked
            if k % 3 == 0 {
                let pl = Bytes::from(format!("{:x}/healthy/{}|payload", hseed & 0xffff_ffff, healthy_sent.len()));
                let mut m = vec![Message::new(Some(((hseed as u128) << 64) | (healthy_sent.len() as u128 + 10)), pl.clone(), None)];
                rep.eval("C13:other-connections-untouched");
                let sent_res = match timed("send", good.send_messages(&one, &one, &Partitioning::partition_id(1), &mut m)).await {
                    Ok(x) => x,
                    Err(st) => {
                        if std::env::var("VERIF_TRACE").is_ok() {
                            eprintln!("STALL healthy send; hseed {hseed}; last ops: {:#?}; panics {:?}", ops.iter().rev().take(6).collect::<Vec<_>>(), take_server_panics());
                        }
                        return Err(st);
                    }
                };
                if let Err(e) = sent_res {
                    return Err(sv(hseed, &ops, "other-connections-untouched", "healthy-send-failed", json!({"error": e.to_string()})));
                }
                healthy_sent.push(pl);
                let pm = timed("poll", good.poll_messages(&one, &one, Some(1), &who, &PollingStrategy::offset(0), 10_000, false)).await?;
                let got: Vec<Bytes> = match pm {
                    Ok(p) => p.messages.into_iter().map(|m| m.payload).collect(),
                    Err(e) => return Err(sv(hseed, &ops, "other-connections-untouched", "healthy-poll-failed", json!({"error": e.to_string()}))),
                };
                if got != healthy_sent {
                    return Err(sv(hseed, &ops, "other-connections-untouched", "log-changed", json!({"healthy_sent": healthy_sent.len(), "in_log": got.len(), "foreign_payload": got.iter().find(|g| !healthy_sent.contains(g)).map(|g| crate::world::head(g))})));
                }
            }
        }
    }
    // a connection that holds a group membership and then sends something that is not a request:
    // whatever the server does with the frame, the membership has to go away with the connection
    let frame_of = |code: u32, payload: &[u8]| {
        let mut f = ((payload.len() + 4) as u32).to_le_bytes().to_vec();
        f.extend_from_slice(&code.to_le_bytes());
        f.extend_from_slice(payload);
        f
    };
    let cu = CreateUser { username: "ghostuser".into(), password: "ghost-password".into(), status: UserStatus::Active, permissions: None };
    let nowhere = Identifier::numeric(99).unwrap();
    let sm = SendMessages { stream_id: nowhere.clone(), topic_id: nowhere.clone(), partitioning: Partitioning::partition_id(1), messages: vec![Message::new(Some(5), Bytes::from_static(b"to-nowhere"), None)] };
    let ct = CreateTopic { stream_id: nowhere.clone(), topic_id: None, partitions_count: 1, compression_algorithm: CompressionAlgorithm::None, message_expiry: IggyExpiry::NeverExpire, max_topic_size: MaxTopicSize::Unlimited, replication_factor: None, name: "nowhere".into() };
    for k in 0..(4 + r.below(5)) {
        let (label, bytes): (&str, Vec<u8>) = match k % 4 {
            0 => {
                let n = r.below(4) as u32;
                let mut f = n.to_le_bytes().to_vec();
                f.extend_from_slice(&r.bytes(n as usize));
                ("member-tiny-frame", f)
            }
            1 => {
                let p = cu.to_bytes();
                let cut = r.range(0, p.len() as u64 - 1) as usize;
                ("member-truncated-create-user", frame_of(cu.code(), &p[..cut]))
            }
            2 => {
                let p = sm.to_bytes();
                let cut = r.range(0, p.len() as u64 - 1) as usize;
                ("member-truncated-send", frame_of(sm.code(), &p[..cut]))
            }
            _ => {
                let p = ct.to_bytes();
                let cut = r.range(0, p.len() as u64 - 1) as usize;
                ("member-truncated-create-topic", frame_of(ct.code(), &p[..cut]))
            }
        };
        let h = RawClient::connect(inst.tcp_addr).await.map_err(Stop::Inconclusive)?;
        timed("login", h.login_user("iggy", "iggy")).await?.map_err(|e| Stop::Inconclusive(e.to_string()))?;
        timed("join", h.join_consumer_group(&one, &two, &one)).await?.map_err(|e| Stop::Inconclusive(e.to_string()))?;
        let g = timed("get_group", good.get_consumer_group(&one, &two, &one)).await?.map_err(|e| Stop::Inconclusive(e.to_string()))?;
        if g.map(|g| g.members_count) != Some(2) {
            return Err(Stop::Inconclusive("group fixture does not have two members".into()));
        }
        ops.push(format!("group member: frame {label} ({} bytes), then the connection goes away", bytes.len()));
        rep.op(&format!("hostile_{label}"));
        let out = h.send_garbage(&bytes, 80).await;
        match out {
            GarbageOutcome::Reply { .. } => rep.event("hostile_frame_error_reply"),
            GarbageOutcome::Closed => rep.event("hostile_connection_closed"),
            GarbageOutcome::NoReply => rep.event("hostile_frame_left_server_waiting"),
        }
        h.drop_socket().await;
        drop(h);
        rep.eval("C13:other-connections-untouched");
        let mut members = 0;
        for _ in 0..1000 {
            let g = timed("get_group", good.get_consumer_group(&one, &two, &one)).await?.map_err(|e| Stop::Inconclusive(e.to_string()))?;
            members = g.map(|g| g.members_count).unwrap_or(0);
            if members == 1 {
                break;
            }
            crate::inst::sleep_ms(10).await;
        }
        if members != 1 {
            let clients = timed("get_clients", good.get_clients()).await?.map(|c| c.len()).unwrap_or(0);
            return Err(sv(hseed, &ops, "other-connections-untouched", &format!("ghost-group-member/{label}"), json!({"frame_hex": hex(&bytes), "members_after_connection_closed": members, "open_connections": 1, "clients_listed": clients,
                "effect": "the partitions assigned to the dead member are never polled by the remaining member"})));
        }
        rep.event("hostile_member_connection_cleaned_up");
    }
    // catalogue untouched
    rep.eval("C13:catalogue-untouched");
    let s = timed("get_streams", good.get_streams()).await?.map_err(|e| Stop::Inconclusive(e.to_string()))?;
    let u = timed("get_users", good.get_users()).await?.map_err(|e| Stop::Inconclusive(e.to_string()))?;
    let mut after = snapshot_val(&s, u.len());
    // the healthy traffic itself moved the message counter: compare everything else
    let strip = |v: &mut Value| {
        if let Some(a) = v["streams"].as_array_mut() {
            for s in a {
                s[3] = json!(0);
            }
        }
    };
    let mut b2 = before.clone();
    strip(&mut after);
    strip(&mut b2);
    if after != b2 {
        return Err(sv(hseed, &ops, "catalogue-untouched", "changed-by-hostile-frames", json!({"before": b2, "after": after})));
    }
    // panics confined to hostile connections are "a closed connection": noted, not a violation
    let p = take_server_panics();
    if !p.is_empty() {
        rep.event_n("panic_confined_to_hostile_connection(note only)", p.len() as u64);
        for x in p.iter().take(3) {
            let n = format!("hostile-frame panic at {}", x.location.rsplit('/').next().unwrap_or(""));
            if !rep.notes.contains(&n) && rep.notes.len() < 12 {
                rep.notes.push(n);
            }
        }
    }
    rep.event("hostile_history");
    if rep.samples.len() < 3 {
        rep.sample(json!({"hostile_history": hseed, "frames_sent": ops.len(), "excerpt": ops.iter().step_by(7).take(12).collect::<Vec<_>>(), "healthy_messages_checked": healthy_sent.len()}));
    }
    Ok(())
}

fn hex(b: &[u8]) -> String {
    b.iter().take(96).map(|x| format!("{x:02x}")).collect()
}

pub async fn run(ctx: &Ctx, rep: &mut ShardReport) {
    let cache = CacheMode::for_shard(ctx.shard);
    rep.process_cfg = cache.name().into();
    let mut r = Rng::new(ctx.seed ^ 0xC13 ^ ((ctx.shard as u64) << 24));
    let mut uniq: u128 = 1;
    let replay = ctx.replay.as_ref().and_then(|p| std::fs::read_to_string(p).ok()).and_then(|t| serde_json::from_str::<Value>(&t).ok());
    // every status code the server can put on the wire decodes to the error it encodes
    {
        use iggy::error::IggyError;
        let generic = IggyError::Error.as_code();
        let mut known = 0u64;
        for code in 1..=20_000u32 {
            let e = IggyError::from_code(code);
            rep.eval("C13:status-roundtrip");
            if e.as_code() == code {
                known += 1;
            } else if e.as_code() != generic {
                rep.violation(cv("status-roundtrip", "decodes-to-different-error", json!({"code": code, "decoded_as": e.as_code(), "name": IggyError::from_code_as_string(code)})));
            }
        }
        rep.event_n("status_codes_round_tripped", known);
    }
    let mut k = 0u64;
    let mut rounds = 0u64;
    while ctx.time_left() {
        let t0 = std::time::Instant::now();
        // a block of generated commands, then one differential history, then one hostile history
        for _ in 0..(if ctx.thorough() { 5000 } else { 2000 }) {
            rounds += 1;
            for v in roundtrip_all(&mut r, rep, &mut uniq) {
                rep.violation(v);
            }
        }
        let t_rounds = t0.elapsed().as_millis();
        rep.histories += 2;
        rep.histories_nontrivial += 2;
        let hseed = match replay.as_ref().and_then(|v| v["witness"]["history"].as_u64()) {
            Some(h) => h,
            None => ctx.hist_seed(k),
        };
        k += 1;
        rep.shapes.insert(format!("{:x}", hseed & 0xffff_ffff));
        match differential(hseed, cache, rep).await {
            Ok(()) => {}
            Err(Stop::Violation(v)) => rep.violation(v),
            Err(Stop::Inconclusive(x)) => rep.inconclusive(&x.chars().take(60).collect::<String>()),
            Err(Stop::Stall(x)) => rep.inconclusive(&format!("stall:{x}")),
        }
        match hostile(hseed, cache, rep).await {
            Ok(()) => {}
            Err(Stop::Violation(v)) => rep.violation(v),
            Err(Stop::Inconclusive(x)) => rep.inconclusive(&x.chars().take(60).collect::<String>()),
            Err(Stop::Stall(x)) => rep.inconclusive(&format!("stall:{x}")),
        }
        if std::env::var("VERIF_TRACE").is_ok() {
            eprintln!("loop {k}: rounds {t_rounds} ms, total {} ms", t0.elapsed().as_millis());
        }
        if replay.is_some() {
            break;
        }
    }
    rep.histories += rounds;
    rep.histories_nontrivial += rounds;
    rep.event_n("generated_command_rounds(45 commands + 19 journal entries + 4 stored messages each)", rounds);
    if ctx.shard == 0 {
        let mut rr = Rng::new(7);
        rep.sample(json!({"generated_command_example": format!("{:?}", CreateTopic { stream_id: ident(&mut rr), topic_id: None, partitions_count: 2, compression_algorithm: CompressionAlgorithm::None, message_expiry: expiry(&mut rr), max_topic_size: maxsize(&mut rr), replication_factor: Some(255), name: ascii(&mut rr, 255) }).chars().take(300).collect::<String>(),
            "each_round": "one generated value of each of the 45 commands, 19 journal entry kinds and 4 stored messages; identifiers numeric/named with lengths 1,2,3,..,255; every header kind; optional fields present/absent"}));
    }
    }
