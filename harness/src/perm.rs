//! C09: (a) exhaustive evaluation of the real permission rules against a documented-hierarchy model,
//! (b) system layer: unauthenticated / logged-out / deleted-user connections, HTTP without token,
//! handlers tied to the rules, permission changes visible on open connections.

use crate::checks::Ctx;
use crate::inst::{scratch_root, take_server_panics, CacheMode, ServerInstance, StorageCfg};
use crate::raw::RawClient;
use crate::report::{ShardReport, Violation};
use crate::rng::Rng;
use crate::world::{class_of, timed, Stop, R};
use ahash::AHashMap;
use bytes::Bytes;
use iggy::binary::binary_client::BinaryClient;
use iggy::client::*;
use iggy::compression::compression_algorithm::CompressionAlgorithm;
use iggy::consumer::Consumer;
use iggy::error::IggyError;
use iggy::identifier::Identifier;
use iggy::messages::poll_messages::PollingStrategy;
use iggy::messages::send_messages::{Message, Partitioning};
use iggy::models::permissions::{GlobalPermissions, Permissions, StreamPermissions, TopicPermissions};
use iggy::models::user_status::UserStatus;
use iggy::utils::expiry::IggyExpiry;
use iggy::utils::topic_size::MaxTopicSize;
use serde_json::{json, Value};
use server::streaming::users::permissioner::Permissioner;
use std::panic::{catch_unwind, AssertUnwindSafe};

#[derive(Clone, Copy, Debug, PartialEq, Eq)]
pub enum Rule {
    GetStats,
    GetClients,
    GetClient,
    GetUser,
    GetUsers,
    CreateUser,
    DeleteUser,
    UpdateUser,
    UpdatePermissions,
    ChangePassword,
    GetStream,
    GetStreams,
    CreateStream,
    UpdateStream,
    DeleteStream,
    PurgeStream,
    GetTopic,
    GetTopics,
    CreateTopic,
    UpdateTopic,
    DeleteTopic,
    PurgeTopic,
    CreatePartitions,
    DeletePartitions,
    CreateGroup,
    DeleteGroup,
    GetGroup,
    GetGroups,
    JoinGroup,
    LeaveGroup,
    GetOffset,
    StoreOffset,
    DeleteOffset,
    Poll,
    Append,
}

pub const RULES: [Rule; 35] = [
    Rule::GetStats, Rule::GetClients, Rule::GetClient, Rule::GetUser, Rule::GetUsers, Rule::CreateUser, Rule::DeleteUser, Rule::UpdateUser,
    Rule::UpdatePermissions, Rule::ChangePassword, Rule::GetStream, Rule::GetStreams, Rule::CreateStream, Rule::UpdateStream, Rule::DeleteStream,
    Rule::PurgeStream, Rule::GetTopic, Rule::GetTopics, Rule::CreateTopic, Rule::UpdateTopic, Rule::DeleteTopic, Rule::PurgeTopic,
    Rule::CreatePartitions, Rule::DeletePartitions, Rule::CreateGroup, Rule::DeleteGroup, Rule::GetGroup, Rule::GetGroups, Rule::JoinGroup,
    Rule::LeaveGroup, Rule::GetOffset, Rule::StoreOffset, Rule::DeleteOffset, Rule::Poll, Rule::Append,
];

/// does the rule depend on the target stream / topic at all?
fn targeted(r: Rule) -> bool {
    !matches!(
        r,
        Rule::GetStats | Rule::GetClients | Rule::GetClient | Rule::GetUser | Rule::GetUsers | Rule::CreateUser | Rule::DeleteUser | Rule::UpdateUser
            | Rule::UpdatePermissions | Rule::ChangePassword | Rule::GetStreams | Rule::CreateStream
    )
}

pub fn call_rule(p: &Permissioner, r: Rule, u: u32, s: u32, t: u32) -> Result<(), IggyError> {
    match r {
        Rule::GetStats => p.get_stats(u),
        Rule::GetClients => p.get_clients(u),
        Rule::GetClient => p.get_client(u),
        Rule::GetUser => p.get_user(u),
        Rule::GetUsers => p.get_users(u),
        Rule::CreateUser => p.create_user(u),
        Rule::DeleteUser => p.delete_user(u),
        Rule::UpdateUser => p.update_user(u),
        Rule::UpdatePermissions => p.update_permissions(u),
        Rule::ChangePassword => p.change_password(u),
        Rule::GetStream => p.get_stream(u, s),
        Rule::GetStreams => p.get_streams(u),
        Rule::CreateStream => p.create_stream(u),
        Rule::UpdateStream => p.update_stream(u, s),
        Rule::DeleteStream => p.delete_stream(u, s),
        Rule::PurgeStream => p.purge_stream(u, s),
        Rule::GetTopic => p.get_topic(u, s, t),
        Rule::GetTopics => p.get_topics(u, s),
        Rule::CreateTopic => p.create_topic(u, s),
        Rule::UpdateTopic => p.update_topic(u, s, t),
        Rule::DeleteTopic => p.delete_topic(u, s, t),
        Rule::PurgeTopic => p.purge_topic(u, s, t),
        Rule::CreatePartitions => p.create_partitions(u, s, t),
        Rule::DeletePartitions => p.delete_partitions(u, s, t),
        Rule::CreateGroup => p.create_consumer_group(u, s, t),
        Rule::DeleteGroup => p.delete_consumer_group(u, s, t),
        Rule::GetGroup => p.get_consumer_group(u, s, t),
        Rule::GetGroups => p.get_consumer_groups(u, s, t),
        Rule::JoinGroup => p.join_consumer_group(u, s, t),
        Rule::LeaveGroup => p.leave_consumer_group(u, s, t),
        Rule::GetOffset => p.get_consumer_offset(u, s, t),
        Rule::StoreOffset => p.store_consumer_offset(u, s, t),
        Rule::DeleteOffset => p.delete_consumer_offset(u, s, t),
        Rule::Poll => p.poll_messages(u, s, t),
        Rule::Append => p.append_messages(u, s, t),
    }
}

/// A permission record in enumerable form.
#[derive(Clone, Copy, Debug, PartialEq, Eq)]
pub struct Rec {
    pub global: u16,        // 10 flags
    pub table: u8,          // 0 no stream table, 1 table without the stream, 2 record for the stream
    pub stream: u8,         // 6 flags
    pub topics: u8,         // 0 none, 1 empty table, 2 table without the topic (a foreign topic with every flag), 3 record for the topic
    pub topic: u8,          // 4 flags
}

/// equal to the target topic id of target (1,2): a rule that swaps its stream and topic arguments then consults this record
pub const FOREIGN_STREAM: u32 = 2;
pub const FOREIGN_TOPIC: u32 = 9;

fn gp(bits: u16) -> GlobalPermissions {
    GlobalPermissions {
        manage_servers: bits & 1 != 0,
        read_servers: bits & 2 != 0,
        manage_users: bits & 4 != 0,
        read_users: bits & 8 != 0,
        manage_streams: bits & 16 != 0,
        read_streams: bits & 32 != 0,
        manage_topics: bits & 64 != 0,
        read_topics: bits & 128 != 0,
        poll_messages: bits & 256 != 0,
        send_messages: bits & 512 != 0,
    }
}
fn tp(bits: u8) -> TopicPermissions {
    TopicPermissions { manage_topic: bits & 1 != 0, read_topic: bits & 2 != 0, poll_messages: bits & 4 != 0, send_messages: bits & 8 != 0 }
}
fn sp(bits: u8, topics: Option<AHashMap<u32, TopicPermissions>>) -> StreamPermissions {
    StreamPermissions {
        manage_stream: bits & 1 != 0,
        read_stream: bits & 2 != 0,
        manage_topics: bits & 4 != 0,
        read_topics: bits & 8 != 0,
        poll_messages: bits & 16 != 0,
        send_messages: bits & 32 != 0,
        topics,
    }
}

impl Rec {
    /// builds the SDK permission object for target (s, t)
    pub fn build(&self, s: u32, t: u32) -> Permissions {
        let streams = match self.table {
            0 => None,
            1 => {
                let mut m = AHashMap::new();
                let mut tt = AHashMap::new();
                tt.insert(t, tp(0xf));
                m.insert(FOREIGN_STREAM, sp(0x3f, Some(tt)));
                Some(m)
            }
            _ => {
                let topics = match self.topics {
                    0 => None,
                    1 => Some(AHashMap::new()),
                    2 => {
                        let mut tt = AHashMap::new();
                        tt.insert(FOREIGN_TOPIC, tp(0xf));
                        Some(tt)
                    }
                    _ => {
                        let mut tt = AHashMap::new();
                        tt.insert(t, tp(self.topic));
                        Some(tt)
                    }
                };
                let mut m = AHashMap::new();
                m.insert(s, sp(self.stream, topics));
                Some(m)
            }
        };
        Permissions { global: gp(self.global), streams }
    }

    /// PermModel: the documented hierarchy read in its most permissive sense.
    pub fn granted(&self, r: Rule) -> bool {
        let g = gp(self.global);
        let has_s = self.table == 2;
        let s = if has_s { sp(self.stream, None) } else { sp(0, None) };
        let t = if has_s && self.topics == 3 { tp(self.topic) } else { tp(0) };
        // any topic record inside the stream's table (also a foreign one) for the listing rule
        let any_topic_read = has_s && (self.topics == 2 || (self.topics == 3 && (t.read_topic || t.manage_topic)));
        let m_s = g.manage_streams || s.manage_stream;
        let r_s = m_s || g.read_streams || s.read_stream;
        let m_tt = m_s || g.manage_topics || s.manage_topics;
        let m_t = m_tt || t.manage_topic;
        let r_tt = r_s || m_tt || g.read_topics || s.read_topics;
        let r_t = r_tt || m_t || t.read_topic;
        let poll = r_t || g.poll_messages || s.poll_messages || t.poll_messages;
        let send = m_t || g.send_messages || s.send_messages || t.send_messages;
        match r {
            Rule::GetStats | Rule::GetClients | Rule::GetClient => g.manage_servers || g.read_servers,
            Rule::GetUser | Rule::GetUsers => g.manage_users || g.read_users,
            Rule::CreateUser | Rule::DeleteUser | Rule::UpdateUser | Rule::UpdatePermissions | Rule::ChangePassword => g.manage_users,
            Rule::GetStream => r_s,
            // the docs list get_streams / create_stream under the per-stream flags too
            Rule::GetStreams => g.manage_streams || g.read_streams || (has_s && (s.manage_stream || s.read_stream)),
            Rule::CreateStream => g.manage_streams || (has_s && s.manage_stream),
            Rule::UpdateStream | Rule::DeleteStream | Rule::PurgeStream => m_s,
            Rule::GetTopic => r_t,
            Rule::GetTopics => r_tt || any_topic_read,
            Rule::CreateTopic => m_tt,
            Rule::UpdateTopic | Rule::DeleteTopic | Rule::PurgeTopic | Rule::CreatePartitions | Rule::DeletePartitions => m_t,
            Rule::CreateGroup | Rule::DeleteGroup | Rule::GetGroup | Rule::GetGroups | Rule::JoinGroup | Rule::LeaveGroup => r_t,
            Rule::GetOffset | Rule::StoreOffset | Rule::DeleteOffset | Rule::Poll => poll,
            Rule::Append => send,
        }
    }

    pub fn json(&self) -> Value {
        let st = ["none", "without-the-stream", "record-for-the-stream"][self.table as usize];
        let tt = ["none", "empty", "without-the-topic", "record-for-the-topic"][self.topics as usize];
        json!({"global_bits": self.global, "stream_table": st, "stream_bits": self.stream,
            "topics_table": tt, "topic_bits": self.topic,
            "permissions": serde_json::to_value(self.build(1, 2)).unwrap_or(Value::Null)})
    }

    /// every record with one more flag set
    pub fn supersets(&self) -> Vec<Rec> {
        let mut v = vec![];
        for b in 0..10 {
            if self.global & (1 << b) == 0 {
                v.push(Rec { global: self.global | (1 << b), ..*self });
            }
        }
        if self.table == 2 {
            for b in 0..6 {
                if self.stream & (1 << b) == 0 {
                    v.push(Rec { stream: self.stream | (1 << b), ..*self });
                }
            }
            if self.topics == 3 {
                for b in 0..4 {
                    if self.topic & (1 << b) == 0 {
                        v.push(Rec { topic: self.topic | (1 << b), ..*self });
                    }
                }
            }
        }
        v
    }
}

/// outcome vector of all rules for one record/target: bit set = allowed; None = a rule panicked
fn outcomes(rec: &Rec, s: u32, t: u32) -> Result<u64, (Rule, String)> {
    let mut p = Permissioner::default();
    p.init_permissions_for_user(7, Some(rec.build(s, t)));
    outcomes_of(&p, s, t)
}

fn outcomes_of(p: &Permissioner, s: u32, t: u32) -> Result<u64, (Rule, String)> {
    let mut bits = 0u64;
    for (i, r) in RULES.iter().enumerate() {
        let res = catch_unwind(AssertUnwindSafe(|| call_rule(p, *r, 7, s, t)));
        match res {
            Ok(Ok(())) => bits |= 1 << i,
            Ok(Err(_)) => {}
            Err(e) => {
                let m = e.downcast_ref::<String>().cloned().or_else(|| e.downcast_ref::<&str>().map(|x| x.to_string())).unwrap_or_default();
                return Err((*r, m));
            }
        }
    }
    Ok(bits)
}

fn v(clause: &str, trig: &str, w: Value) -> Violation {
    Violation { property: "C09".into(), clause: clause.into(), signature: format!("C09:{clause}/{trig}"), witness: json!({"first_bad": w}) }
}

/// Index space of the enumeration.
pub fn all_records() -> Vec<Rec> {
    let mut v = Vec::new();
    for global in 0..1024u16 {
        v.push(Rec { global, table: 0, stream: 0, topics: 0, topic: 0 });
        v.push(Rec { global, table: 1, stream: 0, topics: 0, topic: 0 });
        for stream in 0..64u8 {
            for topics in 0..3u8 {
                v.push(Rec { global, table: 2, stream, topics, topic: 0 });
            }
            for topic in 0..16u8 {
                v.push(Rec { global, table: 2, stream, topics: 3, topic });
            }
        }
    }
    v
}

pub fn rule_layer(ctx: &Ctx, rep: &mut ShardReport) {
    let recs = all_records();
    let total = recs.len();
    let quick_sample = !ctx.thorough();
    let mut rng = Rng::new(ctx.seed ^ 0xC09);
    let targets = [(1u32, 2u32), (1u32, 1u32)];
    let mut evaluated = 0u64;
    let mut panicked_sigs = std::collections::BTreeSet::new();
    for (idx, rec) in recs.iter().enumerate() {
        if idx as u32 % ctx.shards != ctx.shard {
            continue;
        }
        if quick_sample {
            // quick: every record with at most 3 flags set, plus a seeded 1-in-12 sample of the rest
            let flags = rec.global.count_ones() + if rec.table == 2 { rec.stream.count_ones() + if rec.topics == 3 { rec.topic.count_ones() } else { 0 } } else { 0 };
            if flags > 3 && !rng.chance(1, 12) {
                continue;
            }
        }
        for (s, t) in targets {
            evaluated += 1;
            let base = match outcomes(rec, s, t) {
                Ok(b) => b,
                Err((rule, msg)) => {
                    rep.eval("C09:no-panic");
                    let sig = format!("{rule:?}");
                    if panicked_sigs.insert(sig.clone()) {
                        rep.violation(v("no-panic", &format!("rule/{sig}"), json!({"record": rec.json(), "target": [s, t], "rule": sig, "panic": msg})));
                    }
                    continue;
                }
            };
            rep.eval_n("C09:no-panic", RULES.len() as u64);
            // soundness: allowed => granted by the documented hierarchy
            for (i, r) in RULES.iter().enumerate() {
                rep.eval("C09:allowed-implies-granted");
                if base & (1 << i) != 0 && !rec.granted(*r) {
                    rep.violation(v("allowed-implies-granted", &format!("{r:?}"), json!({"record": rec.json(), "target": [s, t], "rule": format!("{r:?}"), "server": "allowed", "model": "not granted"})));
                }
                if base & (1 << i) == 0 && rec.granted(*r) {
                    *rep.events.entry("denied_though_docs_would_allow(note only)".into()).or_insert(0) += 1;
                }
            }
            // isolation: a table that mentions only a foreign stream / foreign topic changes nothing for (s,t)
            if rec.table == 1 {
                rep.eval("C09:isolation");
                let none = Rec { table: 0, ..*rec };
                if let Ok(b0) = outcomes(&none, s, t) {
                    if b0 != base {
                        let diff = first_rule_diff(b0, base);
                        rep.violation(v("isolation", &format!("foreign-stream/{diff}"), json!({"record": rec.json(), "target": [s, t], "rule": diff, "note": "record for the foreign stream (id 2) only changed an outcome for stream 1"})));
                    }
                }
            }
            if rec.table == 2 && rec.topics == 2 {
                rep.eval("C09:isolation");
                let none = Rec { topics: 1, ..*rec };
                if let Ok(b0) = outcomes(&none, s, t) {
                    // listing the topics of the stream is about the stream, not about (s,t): excluded
                    let mask = !(1u64 << RULES.iter().position(|r| *r == Rule::GetTopics).unwrap());
                    if b0 & mask != base & mask {
                        let diff = first_rule_diff(b0 & mask, base & mask);
                        rep.violation(v("isolation", &format!("foreign-topic/{diff}"), json!({"record": rec.json(), "target": [s, t], "rule": diff, "note": "record for topic 9 only changed an outcome for the target topic"})));
                    }
                }
            }
            // monotonicity: one more flag never turns Ok into Err
            for sup in rec.supersets() {
                rep.eval("C09:monotone");
                match outcomes(&sup, s, t) {
                    Ok(b1) => {
                        if base & !b1 != 0 {
                            let diff = first_rule_diff(base & !b1, 0);
                            rep.violation(v("monotone", &diff, json!({"record": rec.json(), "with_one_more_flag": sup.json(), "target": [s, t], "rule_that_became_denied": diff})));
                        }
                    }
                    Err(_) => {} // reported by the no-panic clause when that record is enumerated itself
                }
            }
            // no residue: update to another record == fresh table with that record
            if idx % 7 == 0 {
                rep.eval("C09:no-residue");
                let other = recs[rng.below(total as u64) as usize];
                let mut p = Permissioner::default();
                p.init_permissions_for_user(7, Some(rec.build(s, t)));
                p.update_permissions_for_user(7, Some(other.build(s, t)));
                let upd = outcomes_of(&p, s, t);
                let fresh = outcomes(&other, s, t);
                if let (Ok(a), Ok(b)) = (upd, fresh) {
                    if a != b {
                        let diff = first_rule_diff(a, b);
                        rep.violation(v("no-residue", &diff, json!({"old_record": rec.json(), "new_record": other.json(), "target": [s, t], "rule": diff})));
                    }
                }
                p.delete_permissions_for_user(7);
                if let Ok(a) = outcomes_of(&p, s, t) {
                    if a != 0 {
                        let diff = first_rule_diff(a, 0);
                        rep.violation(v("no-residue", &format!("after-delete/{diff}"), json!({"old_record": other.json(), "target": [s, t], "rule_still_allowed": diff})));
                    }
                }
            }
        }
    }
    // root is allowed everything
    let mut p = Permissioner::default();
    p.init_permissions_for_user(7, Some(Permissions::root()));
    rep.eval("C09:root-everything");
    if let Ok(b) = outcomes_of(&p, 1, 2) {
        if b != (1u64 << RULES.len()) - 1 {
            let diff = first_rule_diff(!b & ((1u64 << RULES.len()) - 1), 0);
            rep.violation(v("root-everything", &diff, json!({"root_denied": diff})));
        }
    }
    let _ = take_server_panics();
    rep.histories += evaluated;
    rep.histories_nontrivial += evaluated;
    rep.event_n("rule_layer_records_x_targets", evaluated);
    rep.extra.insert("rule_layer_total_records".into(), json!(total));
    rep.exhaustive = !quick_sample;
    // shapes: records by (table, topics) class and number of flags
    for rec in recs.iter().step_by(97) {
        rep.shapes.insert(format!("rule|t{}|tt{}|g{}", rec.table, rec.topics, rec.global.count_ones()));
    }
    rep.sample(json!({"rule_layer": "record x target x 35 rules", "example_record": recs[total / 3].json()}));
}

fn first_rule_diff(a: u64, b: u64) -> String {
    let d = a ^ b;
    for (i, r) in RULES.iter().enumerate() {
        if d & (1 << i) != 0 {
            return format!("{r:?}");
        }
    }
    "?".into()
}

// -------------------------------------------------------------------------------------------------
// system layer

fn sv(clause: &str, trig: &str, hist: u64, ops: &[String], detail: Value) -> Stop {
    Stop::Violation(Violation {
        property: "C09".into(),
        clause: clause.into(),
        signature: format!("C09:{clause}/{trig}"),
        witness: json!({"history": hist, "ops": ops, "first_bad": {"i": ops.len().saturating_sub(1), "detail": detail}, "server_panics": take_server_panics()}),
    })
}

struct Sys {
    hist: u64,
    inst: ServerInstance,
    root: RawClient,
    ops: Vec<String>,
    seq: u64,
}

fn sid(i: u32) -> Identifier {
    Identifier::numeric(i).unwrap()
}

impl Sys {
    /// fixture: streams 1 and 3, each with topics 1 and 2 (one partition, one group, a few messages)
    async fn ensure_fixture(&mut self) -> R<()> {
        for s in [1u32, 3] {
            let st = timed("get_stream", self.root.get_stream(&sid(s))).await?.map_err(|e| Stop::Inconclusive(e.to_string()))?;
            if st.is_none() {
                timed("create_stream", self.root.create_stream(&format!("stream-{s}"), Some(s))).await?.map_err(|e| Stop::Inconclusive(format!("fixture stream: {e}")))?;
            } else if st.as_ref().unwrap().name != format!("stream-{s}") {
                let _ = timed("update_stream", self.root.update_stream(&sid(s), &format!("stream-{s}"))).await?;
            }
            for t in [1u32, 2] {
                let tp = timed("get_topic", self.root.get_topic(&sid(s), &sid(t))).await?.map_err(|e| Stop::Inconclusive(e.to_string()))?;
                if tp.is_none() {
                    timed("create_topic", self.root.create_topic(&sid(s), &format!("topic-{t}"), 1, CompressionAlgorithm::None, None, Some(t), IggyExpiry::NeverExpire, MaxTopicSize::Unlimited))
                        .await?
                        .map_err(|e| Stop::Inconclusive(format!("fixture topic: {e}")))?;
                } else {
                    let tp = tp.unwrap();
                    if tp.name != format!("topic-{t}") {
                        let _ = timed("update_topic", self.root.update_topic(&sid(s), &sid(t), &format!("topic-{t}"), CompressionAlgorithm::None, None, IggyExpiry::NeverExpire, MaxTopicSize::Unlimited)).await?;
                    }
                    if tp.partitions_count == 0 {
                        let _ = timed("create_partitions", self.root.create_partitions(&sid(s), &sid(t), 1)).await?;
                    }
                }
                let g = timed("get_group", self.root.get_consumer_group(&sid(s), &sid(t), &sid(1))).await?.map_err(|e| Stop::Inconclusive(e.to_string()))?;
                if g.is_none() {
                    let _ = timed("create_group", self.root.create_consumer_group(&sid(s), &sid(t), "grp-one", Some(1))).await?;
                }
                // one message and a stored offset for consumer 55, so that an empty get_consumer_offset answer means "refused"
                let td = timed("get_topic", self.root.get_topic(&sid(s), &sid(t))).await?.map_err(|e| Stop::Inconclusive(e.to_string()))?;
                if td.map(|x| x.messages_count == 0).unwrap_or(false) {
                    let mut m = self.msg();
                    let _ = timed("send", self.root.send_messages(&sid(s), &sid(t), &Partitioning::partition_id(1), &mut m)).await?;
                }
                let _ = timed("store", self.root.store_consumer_offset(&Consumer::new(sid(55)), &sid(s), &sid(t), Some(1), 0)).await?;
            }
        }
        Ok(())
    }

    fn msg(&mut self) -> Vec<Message> {
        self.seq += 1;
        vec![Message::new(Some(((self.hist as u128) << 64) | self.seq as u128), Bytes::from(format!("perm-payload-{}", self.seq)), None)]
    }
}

/// one guarded operation, performed on `c` against (s,t); returns the error class ("ok" if accepted)
async fn perform<C: BinaryClient>(c: &C, r: Rule, s: u32, t: u32, sys_seq: u64, hist: u64) -> R<&'static str> {
    let who = Consumer::new(sid(55));
    let name = format!("tmp-{}", sys_seq);
    let res: Result<(), IggyError> = match r {
        Rule::GetStats => timed("op", c.get_stats()).await?.map(|_| ()),
        Rule::GetClients => timed("op", c.get_clients()).await?.map(|_| ()),
        Rule::GetClient => match timed("op", c.get_client(1)).await? {
            Ok(Some(_)) => Ok(()),
            Ok(None) => return Ok("empty"),
            Err(e) => Err(e),
        },
        Rule::GetUser => match timed("op", c.get_user(&sid(1))).await? {
            Ok(Some(_)) => Ok(()),
            Ok(None) => return Ok("empty"),
            Err(e) => Err(e),
        },
        Rule::GetUsers => timed("op", c.get_users()).await?.map(|_| ()),
        Rule::CreateUser => timed("op", c.create_user(&format!("u{}", sys_seq), "password-1234", UserStatus::Active, None)).await?.map(|_| ()),
        Rule::DeleteUser => timed("op", c.delete_user(&Identifier::named("user-to-delete").unwrap())).await?,
        Rule::UpdateUser => timed("op", c.update_user(&Identifier::named("user-to-update").unwrap(), None, Some(UserStatus::Active))).await?,
        Rule::UpdatePermissions => timed("op", c.update_permissions(&Identifier::named("user-to-update").unwrap(), None)).await?,
        Rule::ChangePassword => timed("op", c.change_password(&Identifier::named("user-to-update").unwrap(), "password-1234", "password-1234")).await?,
        Rule::GetStream => match timed("op", c.get_stream(&sid(s))).await? {
            Ok(Some(_)) => Ok(()),
            Ok(None) => return Ok("empty"),
            Err(e) => Err(e),
        },
        Rule::GetStreams => timed("op", c.get_streams()).await?.map(|_| ()),
        Rule::CreateStream => timed("op", c.create_stream(&name, None)).await?.map(|_| ()),
        Rule::UpdateStream => timed("op", c.update_stream(&sid(s), &format!("stream-{s}"))).await?,
        Rule::DeleteStream => timed("op", c.delete_stream(&sid(s))).await?,
        Rule::PurgeStream => timed("op", c.purge_stream(&sid(s))).await?,
        Rule::GetTopic => match timed("op", c.get_topic(&sid(s), &sid(t))).await? {
            Ok(Some(_)) => Ok(()),
            Ok(None) => return Ok("empty"),
            Err(e) => Err(e),
        },
        Rule::GetTopics => timed("op", c.get_topics(&sid(s))).await?.map(|_| ()),
        Rule::CreateTopic => timed("op", c.create_topic(&sid(s), &name, 1, CompressionAlgorithm::None, None, None, IggyExpiry::NeverExpire, MaxTopicSize::Unlimited)).await?.map(|_| ()),
        Rule::UpdateTopic => timed("op", c.update_topic(&sid(s), &sid(t), &format!("topic-{t}"), CompressionAlgorithm::None, None, IggyExpiry::NeverExpire, MaxTopicSize::Unlimited)).await?,
        Rule::DeleteTopic => timed("op", c.delete_topic(&sid(s), &sid(t))).await?,
        Rule::PurgeTopic => timed("op", c.purge_topic(&sid(s), &sid(t))).await?,
        Rule::CreatePartitions => timed("op", c.create_partitions(&sid(s), &sid(t), 1)).await?,
        Rule::DeletePartitions => timed("op", c.delete_partitions(&sid(s), &sid(t), 1)).await?,
        Rule::CreateGroup => timed("op", c.create_consumer_group(&sid(s), &sid(t), &name, None)).await?.map(|_| ()),
        Rule::DeleteGroup => timed("op", c.delete_consumer_group(&sid(s), &sid(t), &sid(1))).await?,
        Rule::GetGroup => match timed("op", c.get_consumer_group(&sid(s), &sid(t), &sid(1))).await? {
            Ok(Some(_)) => Ok(()),
            Ok(None) => return Ok("empty"),
            Err(e) => Err(e),
        },
        Rule::GetGroups => timed("op", c.get_consumer_groups(&sid(s), &sid(t))).await?.map(|_| ()),
        Rule::JoinGroup => timed("op", c.join_consumer_group(&sid(s), &sid(t), &sid(1))).await?,
        Rule::LeaveGroup => timed("op", c.leave_consumer_group(&sid(s), &sid(t), &sid(1))).await?,
        Rule::GetOffset => match timed("op", c.get_consumer_offset(&who, &sid(s), &sid(t), Some(1))).await? {
            Ok(Some(_)) => Ok(()),
            Ok(None) => return Ok("empty"),
            Err(e) => Err(e),
        },
        Rule::StoreOffset => timed("op", c.store_consumer_offset(&who, &sid(s), &sid(t), Some(1), 0)).await?,
        Rule::DeleteOffset => timed("op", c.delete_consumer_offset(&who, &sid(s), &sid(t), Some(1))).await?,
        Rule::Poll => timed("op", c.poll_messages(&sid(s), &sid(t), Some(1), &who, &PollingStrategy::offset(0), 5, false)).await?.map(|_| ()),
        Rule::Append => {
            let mut m = vec![Message::new(Some(((hist as u128) << 64) | (0xABCD_0000u128 + sys_seq as u128)), Bytes::from(format!("perm-user-payload-{sys_seq}")), None)];
            timed("op", c.send_messages(&sid(s), &sid(t), &Partitioning::partition_id(1), &mut m)).await?
        }
    };
    Ok(match res {
        Ok(()) => "ok",
        Err(e) => class_of(&e),
    })
}

/// sampled permission records for the system layer
fn sys_records(rng: &mut Rng) -> Vec<Rec> {
    let mut v = vec![
        Rec { global: 0, table: 0, stream: 0, topics: 0, topic: 0 },
        Rec { global: 0, table: 2, stream: 0, topics: 0, topic: 0 },
        Rec { global: 0, table: 2, stream: 0, topics: 1, topic: 0 },
    ];
    for _ in 0..5 {
        let table = rng.below(3) as u8;
        let topics = rng.below(4) as u8;
        // sparse flags: dense records allow nearly everything
        let mut g = 0u16;
        for b in 0..10 {
            if rng.chance(1, 6) {
                g |= 1 << b;
            }
        }
        let mut s = 0u8;
        for b in 0..6 {
            if rng.chance(1, 4) {
                s |= 1 << b;
            }
        }
        v.push(Rec { global: g, table, stream: s, topics, topic: rng.below(16) as u8 });
    }
    v
}

pub async fn system_history(hseed: u64, cache: CacheMode, rep: &mut ShardReport) -> R<()> {
    let mut rng = Rng::new(hseed);
    let mut cfg = StorageCfg::default();
    cfg.http = true;
    cfg.quic = hseed % 2 == 0;
    let dir = scratch_root().join(format!("p{:016x}", hseed));
    let inst = match ServerInstance::start(&dir, &cfg, cache).await {
        Ok(i) => i,
        Err(e) => return Err(Stop::Inconclusive(format!("{e:?}"))),
    };
    let root = RawClient::connect(inst.tcp_addr).await.map_err(Stop::Inconclusive)?;
    timed("login", root.login_user("iggy", "iggy")).await?.map_err(|e| Stop::Inconclusive(e.to_string()))?;
    let mut sys = Sys { hist: hseed, inst, root, ops: vec![], seq: 0 };
    let res = system_history_inner(&mut sys, &mut rng, rep).await;
    let panics = take_server_panics();
    let inst = sys.inst;
    drop(sys.root);
    let _ = inst.stop(false).await;
    let _ = std::fs::remove_dir_all(&dir);
    if !panics.is_empty() {
        let locs: Vec<String> = panics.iter().map(|p| p.location.rsplit('/').next().unwrap_or("").to_string()).collect();
        return Err(sv("no-panic", &format!("system/{}", locs.first().cloned().unwrap_or_default()), hseed, &sys.ops, json!({"panics": panics, "history_result": format!("{:?}", res.as_ref().err())})));
    }
    res?;
    Ok(())
}

async fn snapshot(root: &RawClient) -> R<Value> {
    let st = timed("get_streams", root.get_streams()).await?.map_err(|e| Stop::Inconclusive(e.to_string()))?;
    let us = timed("get_users", root.get_users()).await?.map_err(|e| Stop::Inconclusive(e.to_string()))?;
    let mut s: Vec<Value> = st.iter().map(|x| json!([x.id, x.name, x.topics_count, x.messages_count])).collect();
    s.sort_by_key(|x| x[0].as_u64());
    let mut u: Vec<Value> = us.iter().map(|x| json!([x.id, x.username])).collect();
    u.sort_by_key(|x| x[0].as_u64());
    Ok(json!({"streams": s, "users": u}))
}

async fn system_history_inner(sys: &mut Sys, rng: &mut Rng, rep: &mut ShardReport) -> R<()> {
    sys.ensure_fixture().await?;
    let m = sys.msg();
    let mut m = m;
    let _ = timed("send", sys.root.send_messages(&sid(1), &sid(2), &Partitioning::partition_id(1), &mut m)).await?;
    for n in ["user-to-delete", "user-to-update"] {
        let _ = timed("create_user", sys.root.create_user(n, "password-1234", UserStatus::Active, None)).await?;
    }
    let addr = sys.inst.tcp_addr;

    // 1. never authenticated / logged out: everything but ping and login is refused and changes nothing
    let before = snapshot(&sys.root).await?;
    for variant in ["never-logged-in", "logged-out"] {
        let c = RawClient::connect(addr).await.map_err(Stop::Inconclusive)?;
        unauth_sweep(sys, &c, variant, rep).await?;
    }
    // the same over the QUIC listener (its own framing, sender and session bookkeeping), with the SDK's QUIC client
    if let Some(qaddr) = sys.inst.quic_addr {
        for variant in ["never-logged-in-quic", "logged-out-quic"] {
            let c = crate::codec::quic_client(qaddr).await.map_err(Stop::Inconclusive)?;
            let r = unauth_sweep(sys, &c, variant, rep).await;
            let _ = tokio::time::timeout(std::time::Duration::from_secs(5), iggy::client::Client::disconnect(&c)).await;
            r?;
        }
    }
    let after = snapshot(&sys.root).await?;
    if before != after {
        return Err(sv("unauthenticated-refused", "state-changed", sys.hist, &sys.ops, json!({"before": before, "after": after})));
    }
    system_history_rest(sys, rng, rep, addr, before).await
}

/// one unauthenticated connection: everything but ping and login is refused
async fn unauth_sweep<C: BinaryClient>(sys: &mut Sys, c: &C, variant: &str, rep: &mut ShardReport) -> R<()> {
    {
        if variant.starts_with("logged-out") {
            timed("login", c.login_user("iggy", "iggy")).await?.map_err(|e| Stop::Inconclusive(e.to_string()))?;
            timed("logout", c.logout_user()).await?.map_err(|e| Stop::Inconclusive(e.to_string()))?;
        }
        let ping = timed("ping", c.ping()).await?;
        if ping.is_err() {
            return Err(sv("unauthenticated-refused", "ping-refused", sys.hist, &sys.ops, json!({"variant": variant})));
        }
        for r in RULES.iter() {
            sys.seq += 1;
            sys.ops.push(format!("{variant}: {r:?}(1,2)"));
            let class = perform(c, *r, 1, 2, sys.seq, sys.hist).await?;
            rep.eval("C09:unauthenticated-refused");
            rep.op(&format!("unauth_{r:?}"));
            // an empty answer discloses nothing and performs nothing: it counts as refused
            if class == "ok" {
                return Err(sv("unauthenticated-refused", &format!("{variant}/{r:?}"), sys.hist, &sys.ops, json!({"connection": variant, "operation": format!("{r:?}"), "server": "performed"})));
            }
        }
        // a few commands without a permission rule of their own
        sys.ops.push(format!("{variant}: get_me / tokens / flush / logout"));
        let extra = [
            timed("op", c.get_me()).await?.is_ok(),
            timed("op", c.get_personal_access_tokens()).await?.is_ok(),
            timed("op", c.create_personal_access_token("tok-unauth", iggy::utils::personal_access_token_expiry::PersonalAccessTokenExpiry::NeverExpire)).await?.is_ok(),
            timed("op", c.delete_personal_access_token("tok-unauth")).await?.is_ok(),
            timed("op", c.flush_unsaved_buffer(&sid(1), &sid(2), 1, false)).await?.is_ok(),
            timed("op", c.logout_user()).await?.is_ok(),
        ];
        rep.eval_n("C09:unauthenticated-refused", extra.len() as u64);
        if extra.iter().any(|x| *x) {
            return Err(sv("unauthenticated-refused", &format!("{variant}/unguarded-command"), sys.hist, &sys.ops, json!({"connection": variant, "accepted[get_me,get_tokens,create_token,delete_token,flush,logout]": extra})));
        }
        rep.event(&format!("unauthenticated_connection_{variant}"));
    }
    Ok(())
}

async fn system_history_rest(sys: &mut Sys, rng: &mut Rng, rep: &mut ShardReport, addr: std::net::SocketAddr, before: Value) -> R<()> {

    // 2. HTTP without a bearer token: 401 everywhere but the paths the server declares public
    if let Some(h) = sys.inst.http_addr {
        let cl = reqwest::Client::new();
        let gets = ["/streams", "/streams/1", "/streams/1/topics", "/streams/1/topics/2", "/users", "/users/1", "/clients", "/personal-access-tokens",
            "/streams/1/topics/2/consumer-groups", "/streams/1/topics/2/messages?partition_id=1&count=1", "/streams/1/topics/2/consumer-offsets?partition_id=1"];
        for p in gets {
            sys.ops.push(format!("http GET {p} without token"));
            let r = timed("http", cl.get(format!("http://{h}{p}")).send()).await?;
            let st = r.map(|x| x.status().as_u16()).unwrap_or(0);
            rep.eval("C09:http-needs-token");
            if st != 401 {
                return Err(sv("http-needs-token", "get", sys.hist, &sys.ops, json!({"path": p, "status": st})));
            }
        }
        let posts = [("/streams", json!({"name": "http-unauth"})), ("/users", json!({"username": "httpuser", "password": "password-1", "status": "active"})),
            ("/streams/1/topics", json!({"name": "x", "partitions_count": 1, "compression_algorithm": "none"}))];
        for (p, body) in posts {
            sys.ops.push(format!("http POST {p} without token"));
            let r = timed("http", cl.post(format!("http://{h}{p}")).json(&body).send()).await?;
            let st = r.map(|x| x.status().as_u16()).unwrap_or(0);
            rep.eval("C09:http-needs-token");
            if st != 401 {
                return Err(sv("http-needs-token", "post", sys.hist, &sys.ops, json!({"path": p, "status": st})));
            }
        }
        for p in ["/streams/1", "/users/2", "/streams/1/topics/2"] {
            sys.ops.push(format!("http DELETE {p} without token"));
            let r = timed("http", cl.delete(format!("http://{h}{p}")).send()).await?;
            let st = r.map(|x| x.status().as_u16()).unwrap_or(0);
            rep.eval("C09:http-needs-token");
            if st != 401 {
                return Err(sv("http-needs-token", "delete", sys.hist, &sys.ops, json!({"path": p, "status": st})));
            }
        }
        let after = snapshot(&sys.root).await?;
        if before != after {
            return Err(sv("http-needs-token", "state-changed", sys.hist, &sys.ops, json!({"before": before, "after": after})));
        }
        rep.event("http_without_token");
    }

    // 3. handlers tied to the rules; permission changes apply to the next request on an open connection
    let uname = "perm-user";
    let first = sys_records(rng);
    let perms0 = first[0].build(1, 2);
    timed("create_user", sys.root.create_user(uname, "password-1234", UserStatus::Active, Some(perms0))).await?.map_err(|e| Stop::Inconclusive(format!("create perm-user: {e}")))?;
    let uc = RawClient::connect(addr).await.map_err(Stop::Inconclusive)?;
    timed("login", uc.login_user(uname, "password-1234")).await?.map_err(|e| Stop::Inconclusive(e.to_string()))?;
    for (ri, rec) in first.iter().enumerate() {
        if ri > 0 {
            // update on the fly: the open connection `uc` must see it on its next request
            sys.ops.push(format!("root: update_permissions(perm-user, {})", rec.json()));
            timed("update_permissions", sys.root.update_permissions(&Identifier::named(uname).unwrap(), Some(rec.build(1, 2)))).await?.map_err(|e| Stop::Inconclusive(format!("update_permissions: {e}")))?;
            rep.event("permissions_updated_on_open_connection");
        }
        let mut p = Permissioner::default();
        p.init_permissions_for_user(7, Some(rec.build(1, 2)));
        // own target (1,2), same stream other topic (1,1), foreign stream (3,2)
        for (s, t) in [(1u32, 2u32), (1, 1), (3, 2)] {
            for r in RULES.iter() {
                if !targeted(*r) && (s, t) != (1, 2) {
                    continue;
                }
                let rule_allows = match catch_unwind(AssertUnwindSafe(|| call_rule(&p, *r, 7, s, t))) {
                    Ok(x) => x.is_ok(),
                    Err(_) => continue, // rule-layer finding, reported there
                };
                sys.seq += 1;
                sys.ops.push(format!("perm-user: {r:?}({s},{t})"));
                let class = perform(&uc, *r, s, t, sys.seq, sys.hist).await?;
                if std::env::var("VERIF_TRACE").is_ok() {
                    eprintln!("[trace] rec#{ri} {r:?}({s},{t}) rule_allows={rule_allows} -> {class}");
                }
                rep.eval("C09:handler-follows-rule");
                rep.op(&format!("sys_{r:?}"));
                // "empty" = the handler answered a get with no data (how it reports a refusal for get-by-id commands; the fixture entity exists)
                let allowed = class != "unauthorized" && class != "empty";
                if class == "disconnected" {
                    return Err(sv("no-panic", &format!("request-crashed/{r:?}"), sys.hist, &sys.ops, json!({"operation": format!("{r:?}"), "target": [s, t], "record": rec.json(), "panics": take_server_panics()})));
                }
                if !allowed && rule_allows {
                    // the handlers resolve the target through find_stream/find_topic, which apply the read rules as well:
                    // refusing more than the single rule demands is not a violation of "performed only if granted"
                    rep.event("refused_though_own_rule_allows(note only)");
                }
                if allowed && !rule_allows {
                    // the session's own user may read itself / change its own password without manage_users
                    let self_op = matches!(r, Rule::GetUser | Rule::ChangePassword) && false;
                    if !self_op {
                        let seen = timed("get_user", sys.root.get_user(&Identifier::named(uname).unwrap())).await?.ok().flatten().map(|u| serde_json::to_value(&u.permissions).unwrap_or(Value::Null));
                        sys.ops.push(format!("root: get_user(perm-user).permissions = {}", seen.unwrap_or(Value::Null)));
                        return Err(sv("handler-follows-rule", &format!("{}/{r:?}", if allowed { "performed-though-rule-denies" } else { "refused-though-rule-allows" }), sys.hist, &sys.ops,
                            json!({"operation": format!("{r:?}"), "target": [s, t], "record": rec.json(), "rule_says": if rule_allows { "allowed" } else { "denied" }, "server_outcome": class})));
                    }
                }
                // soundness against the documented hierarchy; for foreign targets the record grants only through its global part
                let eff = if s == 1 { if t == 2 { *rec } else { Rec { topics: rec.topics.min(2), ..*rec } } } else { Rec { table: if rec.table == 0 { 0 } else { 1 }, ..*rec } };
                rep.eval("C09:allowed-implies-granted");
                if allowed && !eff.granted(*r) {
                    return Err(sv("allowed-implies-granted", &format!("system/{r:?}"), sys.hist, &sys.ops,
                        json!({"operation": format!("{r:?}"), "target": [s, t], "record": rec.json(), "server_outcome": class, "model": "not granted"})));
                }
                if class == "ok" {
                    rep.event("guarded_operation_performed");
                } else if class == "unauthorized" {
                    rep.event("guarded_operation_refused");
                }
                // repair what an allowed destructive operation changed
                if class == "ok" && matches!(r, Rule::DeleteStream | Rule::DeleteTopic | Rule::DeletePartitions | Rule::DeleteGroup | Rule::DeleteUser | Rule::UpdateStream | Rule::UpdateTopic | Rule::PurgeStream | Rule::PurgeTopic | Rule::DeleteOffset | Rule::StoreOffset) {
                    sys.ensure_fixture().await?;
                    if matches!(r, Rule::DeleteUser) {
                        let _ = timed("create_user", sys.root.create_user("user-to-delete", "password-1234", UserStatus::Active, None)).await?;
                    }
                }
            }
        }
    }
    // 4. deleting the user: every permission-guarded command on its still-open connection is refused
    sys.ops.push("root: delete_user(perm-user)".into());
    timed("delete_user", sys.root.delete_user(&Identifier::named(uname).unwrap())).await?.map_err(|e| Stop::Inconclusive(format!("delete perm-user: {e}")))?;
    let before = snapshot(&sys.root).await?;
    for r in RULES.iter() {
        sys.seq += 1;
        sys.ops.push(format!("deleted perm-user (open connection): {r:?}(1,2)"));
        let class = perform(&uc, *r, 1, 2, sys.seq, sys.hist).await?;
        rep.eval("C09:deleted-user-refused");
        if class == "ok" {
            return Err(sv("deleted-user-refused", &format!("{r:?}"), sys.hist, &sys.ops, json!({"operation": format!("{r:?}"), "server": "performed for a deleted user"})));
        }
        if class == "disconnected" {
            break;
        }
    }
    let after = snapshot(&sys.root).await?;
    if before != after {
        return Err(sv("deleted-user-refused", "state-changed", sys.hist, &sys.ops, json!({"before": before, "after": after})));
    }
    rep.event("deleted_user_open_connection");
    // 5. root can be neither deleted nor stripped of permissions
    let d = timed("delete_user", sys.root.delete_user(&sid(1))).await?;
    let u = timed("update_permissions", sys.root.update_permissions(&sid(1), None)).await?;
    rep.eval_n("C09:root-protected", 2);
    if d.is_ok() || u.is_ok() {
        return Err(sv("root-protected", if d.is_ok() { "deleted" } else { "permissions-changed" }, sys.hist, &sys.ops, json!({"delete_root": d.is_ok(), "strip_root": u.is_ok()})));
    }
    Ok(())
}

pub async fn run(ctx: &Ctx, rep: &mut ShardReport) {
    let cache = CacheMode::for_shard(ctx.shard);
    rep.process_cfg = cache.name().into();
    if ctx.replay.is_none() {
        rule_layer(ctx, rep);
    }
    let mut k = 0u64;
    let replay_hist: Option<u64> = ctx.replay.as_ref().and_then(|p| std::fs::read_to_string(p).ok()).and_then(|t| serde_json::from_str::<Value>(&t).ok()).and_then(|v| v["witness"]["history"].as_u64());
    while ctx.time_left() {
        let hseed = replay_hist.unwrap_or_else(|| ctx.hist_seed(k));
        k += 1;
        let r = system_history(hseed, cache, rep).await;
        rep.histories += 1;
        rep.histories_nontrivial += 1;
        rep.event("system_history");
        rep.shapes.insert(format!("sys|{:x}", hseed & 0xfff));
        match r {
            Ok(()) => {}
            Err(Stop::Violation(v)) => rep.violation(v),
            Err(Stop::Inconclusive(r)) => rep.inconclusive(&r.chars().take(60).collect::<String>()),
            Err(Stop::Stall(w)) => rep.inconclusive(&format!("stall:{w}")),
        }
        if ctx.replay.is_some() {
            break;
        }
    }
    rep.extra.insert("required_events".into(), json!(["rule_layer_records_x_targets", "system_history", "unauthenticated_connection_never-logged-in", "unauthenticated_connection_logged-out", "unauthenticated_connection_never-logged-in-quic", "unauthenticated_connection_logged-out-quic",
        "http_without_token", "permissions_updated_on_open_connection", "deleted_user_open_connection", "guarded_operation_performed", "guarded_operation_refused"]));
}
