//! Deterministic seeded generator (splitmix64). No global RNG anywhere in the harness.

#[derive(Clone, Debug)]
pub struct Rng(pub u64);

impl Rng {
    pub fn new(seed: u64) -> Self {
        Rng(seed ^ 0x9E37_79B9_7F4A_7C15)
    }

    pub fn derive(&mut self, salt: u64) -> Rng {
        let a = self.next_u64();
        Rng::new(a ^ salt.wrapping_mul(0xD6E8_FEB8_6659_FD93))
    }

    pub fn next_u64(&mut self) -> u64 {
        self.0 = self.0.wrapping_add(0x9E37_79B9_7F4A_7C15);
        let mut z = self.0;
        z = (z ^ (z >> 30)).wrapping_mul(0xBF58_476D_1CE4_E5B9);
        z = (z ^ (z >> 27)).wrapping_mul(0x94D0_49BB_1331_11EB);
        z ^ (z >> 31)
    }

    /// Uniform in 0..n (n > 0).
    pub fn below(&mut self, n: u64) -> u64 {
        if n == 0 {
            return 0;
        }
        self.next_u64() % n
    }

    /// Uniform in lo..=hi.
    pub fn range(&mut self, lo: u64, hi: u64) -> u64 {
        if hi <= lo {
            return lo;
        }
        lo + self.below(hi - lo + 1)
    }

    pub fn chance(&mut self, num: u64, den: u64) -> bool {
        self.below(den) < num
    }

    pub fn pick<'a, T>(&mut self, items: &'a [T]) -> &'a T {
        &items[self.below(items.len() as u64) as usize]
    }

    /// Picks an index according to integer weights.
    pub fn weighted(&mut self, weights: &[u32]) -> usize {
        let total: u64 = weights.iter().map(|w| *w as u64).sum();
        if total == 0 {
            return 0;
        }
        let mut x = self.below(total);
        for (i, w) in weights.iter().enumerate() {
            if x < *w as u64 {
                return i;
            }
            x -= *w as u64;
        }
        weights.len() - 1
    }

    pub fn bytes(&mut self, n: usize) -> Vec<u8> {
        let mut v = Vec::with_capacity(n);
        while v.len() < n {
            let x = self.next_u64().to_le_bytes();
            let take = (n - v.len()).min(8);
            v.extend_from_slice(&x[..take]);
        }
        v
    }

    pub fn lower_name(&mut self, min: usize, max: usize) -> String {
        let len = self.range(min as u64, max as u64) as usize;
        let mut s = String::with_capacity(len);
        for i in 0..len {
            let c = if i == 0 {
                b'a' + self.below(26) as u8
            } else {
                let k = self.below(38);
                match k {
                    0..=25 => b'a' + k as u8,
                    26..=35 => b'0' + (k - 26) as u8,
                    36 => b'_',
                    _ => b'-',
                }
            };
            s.push(c as char);
        }
        s
    }
}

pub fn fnv64(data: &[u8]) -> u64 {
    let mut h: u64 = 0xcbf29ce484222325;
    for b in data {
        h ^= *b as u64;
        h = h.wrapping_mul(0x100000001b3);
    }
    h
}
