#!/bin/bash
# lib/final_evidence.sh  - rewrites every evidence file from a quick run (seed 1) pinned to 4 cores, then validates MANIFEST and evidence
cd "$(dirname "$0")/.."
rc=0
for c in C01 C02 C03 C04 C05 C06 C07 C08 C09 C10 C11 C12 C13 C14 C15 C16 C17 C18 C19 C20; do
  rm -f evidence/$c.json
  out=$(taskset -c 0-3 ./check $c --tier quick --seed 1 2>&1); r=$?
  echo "== $c exit=$r: $(echo "$out" | grep -E '^check' | cut -c1-160)"
  echo "$out" | grep -E "VIOLATION|INCONCLUSIVE" | cut -c1-300
  [ $r -ne 0 ] && rc=1
  [ -f evidence/$c.json ] || { echo "   evidence missing"; rc=1; }
done
python3-vt - <<'P'
import json,jsonschema,glob
m=json.load(open('MANIFEST.json')); jsonschema.validate(m,json.load(open('/root/.vp/MANIFEST.schema.json')))
e=json.load(open('/root/.vp/EVIDENCE.schema.json'))
bad=0
for f in sorted(glob.glob('evidence/*.json')):
    try: jsonschema.validate(json.load(open(f)),e)
    except Exception as x: print(f,'INVALID',str(x)[:200]); bad+=1
print('manifest valid;', len(glob.glob('evidence/*.json')), 'evidence files,', bad, 'invalid')
P
exit $rc
