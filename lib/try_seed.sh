#!/bin/bash
# usage: lib/try_seed.sh <patch.diff> <budget-s> <check> [<check>...]
# Applies a seeded defect to /repo, runs the given checks (quick tier), and reverts it straight afterwards.
set -u
patch=$1; budget=$2; shift 2
cd /repo || exit 2
if ! git diff --quiet; then echo "/repo has uncommitted changes"; exit 2; fi
git apply "$patch" || { echo "patch does not apply"; exit 2; }
trap 'git -C /repo checkout -- . ; echo "[reverted]"' EXIT
cd /verif
for c in "$@"; do
  echo "=== $c with $(basename $(dirname $patch)) applied"
  ./check "$c" --budget-s "$budget" 2>&1 | grep -E "^check|VIOLATION|signature|first_bad|HELD|INCONCLUSIVE|KNOWN" | cut -c1-400 | head -12
done
