#!/bin/bash
# lib/final_seed_pass.sh [budget-s]  - authoritative pass: every seeded change applied to /repo in turn (git apply, check, git checkout -- .)
# Prints one line per seed: DETECTED / MISSED and the first signature. Nothing else may use /repo while this runs.
budget=${1:-45}
cd /verif
for d in seeded/*/; do
  s=$(basename $d); c=${s%%-*}
  out=$(lib/try_seed.sh /verif/$d/patch.diff $budget $c 2>&1)
  if echo "$out" | grep -q "^VIOLATION"; then
    sig=$(echo "$out" | grep -m1 "signature:" | sed 's/ *signature: //')
    echo "DETECTED $s by $c: $sig"
  else
    echo "MISSED   $s by $c: $(echo "$out" | grep -E 'HELD|INCONCLUSIVE|apply' | head -1)"
  fi
  git -C /repo diff --quiet || { echo "REPO NOT CLEAN after $s"; git -C /repo checkout -- .; }
done
