#!/usr/bin/env python3
"""Regenerates /verif/MANIFEST.json from lib/checks_meta.py (kept in git; run after editing the metadata)."""
import json, os, subprocess, sys
ROOT = os.path.dirname(os.path.dirname(os.path.abspath(__file__)))
sys.path.insert(0, os.path.join(ROOT, 'lib'))
from checks_meta import CHECKS, MANIFEST_TEXT, NOT_APPLICABLE

hooks = subprocess.run(['git', '-C', '/repo', 'log', '--format=%H %s'], capture_output=True, text=True).stdout.splitlines()
hook_commits = [l.split()[0] for l in hooks if ' verif hook' in l]
m = {
    "version": 1,
    "setup_cmd": "./check --setup",
    "hooks": {
        "guard": "cargo feature `verif` (sdk: iggy/verif, server: server/verif -> iggy/verif); off by default",
        "enable": "the harness crate /verif/harness depends on /repo/server and /repo/sdk by path with features=[\"verif\"]; every check command starts with `cargo build --offline --profile verif` of the harness, i.e. rebuilds /repo's working tree with the hooks on",
        "baseline_off_cmd": "/verif/baseline.sh",
        "source_commits": list(reversed(hook_commits)),
        "add_only": True,
    },
    "engines": [{
        "name": "iggy-verif harness",
        "path": "harness/",
        "serves_properties": sorted(CHECKS.keys()),
        "kind_free_text": "Rust binary that starts the real server in-process (System + TCP/HTTP front ends, and the QUIC listener in part of the C09/C13 histories), drives seeded hostile workloads through real clients and evaluates reference-model / history / fault-enumeration oracles; python driver ./check shards it over 16 cores and merges what the monitors observed into evidence",
    }],
    "checks": [],
    "notes": "Runtime monitoring only: every verdict is an oracle observing executions of the real code. See DESIGN.md. Known findings: known_findings.json.",
    "not_applicable": NOT_APPLICABLE,
}
for cid in sorted(CHECKS):
    t = MANIFEST_TEXT[cid]
    m["checks"].append({
        "property_id": cid,
        "quick_cmd": f"./check {cid} --tier quick",
        "thorough_cmd": f"./check {cid} --tier thorough",
        "evidence_file": f"/verif/evidence/{cid}.json",
        "replay_cmd_template": f"./check {cid} --replay {{path}}",
        "engine": "iggy-verif harness",
        "level_claimed": {"category": CHECKS[cid]["level"], "text": t["level_text"], "design_ref": t["design_ref"]},
        "level_note": t["level_note"],
        "technique": t["technique"],
    })
with open(os.path.join(ROOT, 'MANIFEST.json'), 'w') as f:
    json.dump(m, f, indent=1)
print('MANIFEST.json written:', len(m['checks']), 'checks,', len(NOT_APPLICABLE), 'not applicable')
