#!/bin/bash
# lib/seed_regression.sh [budget-s]  - every stored seed against the check of its property in the isolated seedrun environment
# (a scratch worktree of /repo HEAD and a copy of the COMMITTED /verif under /tmp/seedrun); one line per seed.
budget=${1:-45}
cd "$(dirname "$0")/.."
for d in seeded/*/; do
  s=$(basename $d); c=${s%%-*}
  # C01-agent3 is, by its own description, a crash-recovery defect: it is judged by C04
  [ "$s" = "C01-agent3" ] && c=C04
  out=$(lib/seedrun.sh $budget /verif/$d/patch.diff $c 2>&1)
  if echo "$out" | grep -q "^VIOLATION"; then
    echo "DETECTED $s by $c: $(echo "$out" | grep -m1 'signature:' | sed 's/ *signature: //')"
  else
    echo "MISSED   $s by $c: $(echo "$out" | grep -E 'HELD|INCONCLUSIVE|apply' | head -1)"
  fi
done
