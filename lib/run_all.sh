#!/bin/bash
# lib/run_all.sh <tier> <seed> [checks...]  - every check in turn on the current tree; one summary line each
tier=${1:-quick}; seed=${2:-1}; shift 2
checks=${@:-C01 C02 C03 C04 C05 C06 C07 C08 C09 C10 C11 C12 C13 C14 C15 C16 C17 C18 C19 C20}
cd "$(dirname "$0")/.."
for c in $checks; do
  out=$(./check $c --tier $tier --seed $seed 2>&1); rc=$?
  echo "== $c tier=$tier seed=$seed exit=$rc"
  echo "$out" | grep -E "^check|VIOLATION|signature|INCONCLUSIVE|HELD" | cut -c1-300
  echo "$out" | grep -c "^KNOWN-FINDING" | sed 's/^/   known-finding lines: /'
done
