#!/usr/bin/env python3
"""Debug helper: show samples of foreign/own violations recorded in the shard reports of the latest runs."""
import json, glob, sys
pat = sys.argv[1] if len(sys.argv) > 1 else ''
seen = {}
for f in sorted(glob.glob('/verif/.work/*/shard*.json')):
    try:
        r = json.load(open(f))
    except Exception:
        continue
    for s in r['foreign_samples'] + [{'signature': v['signature'], 'witness': v['witness']} for v in r['violations']]:
        sig = s['signature']
        if pat not in sig or seen.get(sig, 0) >= 2:
            continue
        seen[sig] = seen.get(sig, 0) + 1
        w = s['witness']
        print('==', sig, w.get('process_cfg'), {k: v for k, v in w.get('storage_cfg', {}).items() if k in ('messages_required_to_save', 'segment_size', 'cache_indexes', 'no_wait', 'dedup', 'partition_fsync')}, w.get('topic_cfg'))
        print(json.dumps(w.get('first_bad'))[:1200])
        print('panics:', json.dumps(w.get('server_panics'))[:800])
        for o in w.get('ops', [])[-8:]:
            print('   ', json.dumps(o)[:170])
