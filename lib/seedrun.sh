#!/bin/bash
# Isolated evaluation of seeded defects while development continues in /verif and /repo:
#   lib/seedrun.sh <budget-s> <patch.diff> <check> [<check>...]
# Uses a scratch git worktree of /repo (HEAD) under /tmp/seedrun/repo, a copy of the *committed* /verif under
# /tmp/seedrun/verif whose harness path-depends on that worktree, and its own target dir. The authoritative procedure
# (apply to /repo itself, run ./check, revert) is lib/try_seed.sh.
set -u
budget=$1; patch=$2; shift 2
S=/tmp/seedrun
mkdir -p $S
if [ ! -d $S/repo ]; then git -C /repo worktree add -q --detach $S/repo HEAD || exit 2; fi
git -C $S/repo checkout -q --detach $(git -C /repo rev-parse HEAD) 2>/dev/null
git -C $S/repo checkout -q -- . ; git -C $S/repo clean -fdq -e target
rm -rf $S/verif.new && mkdir -p $S/verif.new && git -C /verif archive HEAD | tar -x -C $S/verif.new
[ -d $S/verif/target ] && mv $S/verif/target $S/verif.new/target
rm -rf $S/verif && mv $S/verif.new $S/verif
sed -i "s#/repo/#$S/repo/#g" $S/verif/harness/Cargo.toml
sed -i "s#/verif/target#$S/verif/target#" $S/verif/harness/.cargo/config.toml
cp $S/repo/Cargo.lock $S/verif/harness/Cargo.lock 2>/dev/null
git -C $S/repo apply "$patch" || { echo "patch does not apply"; exit 2; }
cd $S/verif
for c in "$@"; do
  echo "=== $c with $(basename $(dirname $patch)) applied [isolated seedrun]"
  ./check "$c" --budget-s "$budget" 2>&1 | grep -E "^check|VIOLATION|signature|first_bad|HELD|INCONCLUSIVE|KNOWN" | cut -c1-420 | head -12
done
git -C $S/repo checkout -q -- .
