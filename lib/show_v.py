#!/usr/bin/env python3
import json, glob, sys
pat = sys.argv[1] if len(sys.argv) > 1 else ''
n = int(sys.argv[2]) if len(sys.argv) > 2 else 1
seen = {}
for f in sorted(glob.glob('/verif/.work/*/shard*.json')):
    try: r = json.load(open(f))
    except Exception: continue
    for s in r['foreign_samples'] + [{'signature': v['signature'], 'witness': v['witness']} for v in r['violations']]:
        sig = s['signature']
        if pat not in sig or seen.get(sig, 0) >= n: continue
        seen[sig] = seen.get(sig, 0) + 1
        w = s['witness']
        print('==', sig, w.get('process_cfg'), {k: v for k, v in w.get('storage_cfg', {}).items() if k in ('segment_size', 'http', 'no_wait','default_max_topic_size')})
        print(json.dumps(w.get('first_bad'))[:1500])
        print('panics:', json.dumps(w.get('server_panics'))[:600])
        for o in w.get('ops', [])[-10:]:
            print('   ', json.dumps(o)[:230])
