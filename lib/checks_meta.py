"""Per-check metadata used by the driver (budgets, minimum coverage, evidence texts)."""

COMMON_ASSUMPTIONS = [
    "TCP (and where stated HTTP) transports are driven; QUIC and TLS are not (same handlers).",
    "The server runs in-process (real System, real tcp/http front ends) on its own tokio runtime; process-global "
    "allocators are reset by hook H2 on restart.",
    "Harness build profile keeps release arithmetic semantics (debug-assertions off, overflow-checks off).",
    "A verdict covers only the executions observed; nothing here is a proof.",
]

DATA_RULE = (
    "Seeded histories (splitmix64 from VERIF_SEED, shard, index) of send/poll/flush/save/restart/purge/offset operations on "
    "1-3 partitions, every storage-configuration axis drawn per history, cache class fixed per shard process. "
    "evaluations = histories executed. A history is non-trivial when it contains at least one property-specific event "
    "(listed in events_seen); distinct_nontrivial = number of distinct (configuration class, collapsed sequence of "
    "operation kinds incl. property-specific events) pairs among non-trivial histories."
)


def data(budget_q=45, budget_t=900, min_q=20, min_t=500, extra_assumptions=()):
    return {
        "level": "exploration",
        "budget": {"quick": budget_q, "thorough": budget_t},
        "min_histories": {"quick": min_q, "thorough": min_t},
        "rule": DATA_RULE,
        "assumptions": COMMON_ASSUMPTIONS + list(extra_assumptions),
    }


ADMIN_RULE = (
    "Seeded histories of catalogue commands (streams, topics, partitions, consumer groups, memberships, users, permissions, passwords, "
    "tokens; server-assigned and explicit ids; targets by number and by name; valid and invalid arguments; alternating TCP and HTTP) "
    "against a sequential reference catalogue. evaluations = histories; a history is non-trivial when it contains a property-specific "
    "event (refused command / deletion / rename by name / restart); distinct_nontrivial = distinct (config class, collapsed op-kind sequence)."
)


def admin(**kw):
    d = data(**kw)
    d["rule"] = ADMIN_RULE
    return d


CHECKS = {
    "C01": data(),
    "C05": admin(),
    "C06": admin(),
    "C08": {
        "level": "exploration",
        "budget": {"quick": 45, "thorough": 900},
        "min_histories": {"quick": 20, "thorough": 500},
        "rule": ("Seeded histories on one topic (1-8 partitions, growing and shrinking) and one consumer group with 1-6 member connections: join, leave, abrupt disconnect, reconnect, "
                 "create/delete partitions, sends to all partitions, next + auto-commit polls without partition id by members in a seeded sequential order and in concurrent bursts of all members, "
                 "polls by the single member of a second group on the same topic (whose structure and cursor must stay untouched by everything that happens to the first), then a drain. "
                 "In every second history a second stream holds a topic and a group with the same numeric ids (topic 4, group 6): a member joins that twin group before the main one and stays in it until its connection goes away; after every event the twin group must list exactly the connected members that joined it and split its 3 partitions among them (events join_twin_group, twin_member_disconnected, twin_group_checked). "
                 "evaluations = histories; non-trivial = messages were delivered to the group and membership or partition count changed in between; "
                 "distinct_nontrivial = distinct (cache class, partitions, members, collapsed event sequence)."),
        "assumptions": COMMON_ASSUMPTIONS + ["Members poll sequentially in a seeded order (the statement quantifies over poll orders, not over concurrent polls).",
                                             "A dropped socket is noticed by the server on its next read: the disconnect clause waits a bounded number of retries (200 x 5 ms)."],
        "required_events": ["join", "member_disconnected", "join_twin_group", "twin_member_disconnected", "twin_group_checked"],
    },
    "C04": {
        "level": "fault_enumeration",
        "budget": {"quick": 60, "thorough": 1200},
        "min_histories": {"quick": 10, "thorough": 200},
        "min_events": {"quick": {"images_recovered": 200}, "thorough": {"images_recovered": 5000}},
        "unit": "workload histories whose every file-mutation point was turned into a crash image",
        "rule": ("Short workloads (sends around save thresholds and roll-overs, flush, background save, consumer-offset stores, purge, topic create/delete; wait and no-wait, fsync on/off, index cache on/off) run on a "
                 "single-worker server runtime with hook H3 armed: after EVERY file mutation the server performs (log append, index append, persister append/overwrite/delete, segment create/delete) the data directory is frozen "
                 "(crash image), together with the acknowledged model and the operation in flight. From each image torn variants are derived by cutting the last written file back to intermediate lengths (all of them for writes "
                 "<= 64 bytes, header boundaries + seeded lengths beyond; quick recovers every image and a seeded third of the torn sets, thorough all). Every image is recovered by a fresh incarnation: start-up must not panic or "
                 "hang (an untorn image must start), the catalogue must hold the acknowledged entities, each partition's scan must be a gap-free content-identical prefix of accepted (+ in-flight) messages containing everything "
                 "whose log and index write had completed (wait mode), 1-3 sends after recovery must continue at the next offset with nothing served twice, recovered consumer offsets must be values once stored. "
                 "evaluations = workload histories; distinct_nontrivial = distinct (configuration class, set of mutation kinds that produced images)."),
        "assumptions": COMMON_ASSUMPTIONS + ["Process-crash model: whatever a write call had handed to the kernel survives; power-loss reordering of un-fsynced pages and torn writes inside a file other than the last one written are out of reach.",
                                             "The server runs on a single worker thread during the workload so that the synchronous copy in the hook cannot interleave with later file operations (it would fabricate images no crash can produce).",
                                             "Images taken while a purge is in flight are judged leniently (either side of the purge)."],
    },
    "C11": {
        "level": "fault_enumeration",
        "budget": {"quick": 50, "thorough": 900},
        "min_histories": {"quick": 20, "thorough": 40},
        "min_events": {"quick": {"journals_tampered": 3}, "thorough": {"journals_tampered": 16}},
        "unit": "journal-producing histories (direct concurrent FileState::apply with injected append failures, and concurrent connections against the server)",
        "rule": ("(a) Concurrency: 1-8 tasks call the real FileState::apply concurrently on one journal (what concurrent purge handlers under the shared system lock do) and 2-8 client connections "
                 "mix exclusive-lock commands (create stream/user) with shared-lock commands (purge stream/topic) against the real server, with hook H4's schedule point between index allocation and append armed; "
                 "(b) hook H5 fails every k-th append (k in 2..7); afterwards an independent parser (no iggy code, own crc32) checks indices consecutive from 0 in file order and checksums, the real loader and a full "
                 "System::init must accept the file and the journal must hold exactly the acknowledged commands. (c) Tamper enumeration on the journals produced: every truncation length, byte mutations at every position "
                 "(quick: 2 values per position for journals <= 2 KB, sampled beyond; thorough: 8 bit flips + 0x00 + 0xFF + 1 at every position), removal/duplication of every entry, swap of every adjacent pair, removal of "
                 "every prefix; the loader must report an error or return a prefix after a cut exactly at an entry boundary. evaluations = journal-producing histories; distinct_nontrivial = distinct histories "
                 "(each has its own seed, task count, fault period); tamper cases are counted in ops_by_kind."),
        "assumptions": COMMON_ASSUMPTIONS + ["Write failures are injected at the persister (hook H5): as root on tmpfs no other way produces them; torn writes inside the state file are covered by the truncation enumeration.",
                                             "Mutations that blow a length field up to gigabytes are run one at a time across shard processes (flock)."],
    },
    "C12": {
        "level": "exploration",
        "budget": {"quick": 45, "thorough": 900},
        "min_histories": {"quick": 20, "thorough": 500},
        "min_events": {"quick": {"poll_overlapping_inflight_send": 100}, "thorough": {"poll_overlapping_inflight_send": 5000}},
        "rule": ("Many short concurrent histories: 2-6 producer connections send tagged batches to one partition while 1-4 consumer connections poll windows near the tail "
                 "(offset/first/last) and a janitor flushes and runs background saves; tiny segments, small save thresholds, cache class per shard, both confirmation modes, "
                 "hook H4 schedule points armed with a seeded yield/sleep policy. Every call is recorded with call/return instants from one clock; an offline checker judges the history "
                 "against the final log. evaluations = histories; non-trivial = the final log interleaves batches of different producers; distinct_nontrivial = distinct "
                 "(configuration class, producer sequence of the final log) pairs, i.e. distinct interleavings actually observed."),
        "assumptions": COMMON_ASSUMPTIONS + ["Schedules are those the OS and tokio produce under stress plus seeded delays at hook H4's schedule points; no claim of schedule coverage.",
                                             "Real-time visibility and atomic-visibility clauses are evaluated in wait-confirmation mode only (the statement restricts them to it)."],
    },
    "C20": {
        "level": "exploration",
        "budget": {"quick": 60, "thorough": 900},
        "min_histories": {"quick": 150, "thorough": 3000},
        "required_events": ["history_with_yields", "consumer_recreated", "history_with_wire_commits"],
        "min_events": {"quick": {"consumer_recreated": 150}, "thorough": {"consumer_recreated": 3000}},
        "rule": ("One history = one server (wait confirmation), one real IggyProducer and 1-2 real IggyConsumers built through IggyClient over the SDK's own TcpClient. Seeded settings: "
                 "1-3 partitions; producer batch size {none,1,2,3,10,1000}, send interval {none,1ms,3ms}, partitioning {default, balanced, partition id, key}, 4-13 calls drawn from "
                 "send / send_one / send_with_partitioning(partition|key) / send_to(other stream and/or topic), optional client-side encryption, optional injected refusal of every 2nd/3rd send request before it is written (retry path); consumer single (one partition) or group (1-2 members), "
                 "strategy {next, offset(0), first, last}, batch size {1,2,3,5,10,100}, commit mode {disabled+manual, polling, all, each, every n-th, interval, interval-or-polling, interval-or-each, after-each, after-all, after-every-n-th (via consume_messages)}, "
                 "2-5 phases in which a member consumes a seeded number of messages and is then (2/3) dropped and re-created with the same identity on the same or a fresh client. "
                 "A tap on the transport's request/response boundary records every fetch (offsets returned) and offset commit; the driver logs every yielded message into the same sequence; "
                 "stored offsets are read from the server at quiescent points. Oracles: every produced message is stored exactly once in the addressed stream/topic/partition (same key => same partition, "
                 "call order kept), yields are in offset order without gaps or repeats within an incarnation and equal the log's content, no commit beyond the last fetched offset and (consumption modes) beyond the last "
                 "yielded message, a re-created next-strategy consumer starts at stored offset + 1, every message of the consumer's partitions is yielded (exactly once without re-creation). "
                 "evaluations = histories; non-trivial = at least one message yielded; distinct_nontrivial = distinct (settings class, number of re-creations) pairs."),
        "assumptions": COMMON_ASSUMPTIONS + ["Completeness ('every message is yielded') is a bounded-progress reading: a consumer that answers 40 consecutive polls without yielding, with messages left and no fault, is reported as never yielding them.",
                                             "first/last strategies are judged on safety only (order, no repeats, content, commit bounds); with fetch-time commit modes, messages fetched but not yet yielded when the consumer is dropped may be skipped after re-creation (the statement bounds those commits by 'fetched').",
                                             "Two-member groups: cross-member exactly-once and the resume clause are not asserted across rebalancing (buffered messages of a reassigned partition may legitimately be seen twice).",
                                             "AutoCommitAfter modes are driven through IggyConsumerMessageExt::consume_messages, where every phase is one incarnation on its own client."],
    },
    "C13": {
        "level": "exploration",
        "budget": {"quick": 40, "thorough": 600},
        "min_histories": {"quick": 10000, "thorough": 300000},
        "unit": "generated command rounds + differential histories + hostile-frame histories",
        "aux": "miri_status",
        "required_events": ["differential_history", "differential_over_tcp", "differential_over_quic", "hostile_history", "hostile_frame_error_reply", "hostile_connection_closed", "hostile_member_connection_cleaned_up"],
        "min_events": {"quick": {"differential_history": 8, "hostile_history": 8}, "thorough": {"differential_history": 60, "hostile_history": 60}},
        "rule": ("(a) Generated rounds: one structure-aware value of each of the 45 SDK commands (numeric/named identifiers of length 1,2,3,..,255, every partitioning kind, polling strategy, "
                 "header value kind, optional fields present/absent, nested permission tables, boundary numbers) is encoded with the SDK's to_bytes, framed, decoded by the server's "
                 "ServerCommand::from_bytes (hook H6) under catch_unwind, compared for equality with the original and validated on both sides; the same values go through the journal "
                 "encoding (19 EntryCommand kinds) and the on-disk message encoding (RetainedMessage). "
                 "(b) Differential histories on a real server: streams, topics, users (with nested permissions), groups, consumer offsets and messages with boundary values are created "
                 "over the binary protocol or HTTP (seeded choice) and read back over both transports by id and by name; answers must agree with each other and with what was sent; the binary side is the harness' TCP framing client or, in every third history, the SDK's QuicClient against the server's QUIC listener (its own request framing, sender and session bookkeeping; events differential_over_tcp / differential_over_quic count the histories that completed on each); 23 JSON bodies that are not valid requests "
                 "(wrong types, out-of-range ids, violated limits, bad base64) are sent over HTTP with root's token and must be refused with the catalogue unchanged. "
                 "(c) Hostile histories: unauthenticated, permission-less and group-member connections send random bytes, short/oversized length prefixes, valid codes with random payloads, "
                 "truncated and bit-flipped valid frames and unknown codes; each must be answered by an error or a closed connection, a healthy connection's model-checked log and the catalogue "
                 "must stay unchanged and a dead member's group membership must disappear. (d) Status codes: every code 1..20000 decodes (IggyError::from_code) to an error that encodes back to it or to the generic error; "
                 "the same loop runs under Miri (verif/miri, cargo +nightly miri run) because as_code reads the enum discriminant through an unsafe pointer cast. evaluations = rounds + histories; distinct_nontrivial = distinct history seeds (each draws different values and frames)."),
        "assumptions": COMMON_ASSUMPTIONS + ["The HTTP representation of a consumer carries no kind (consumer groups are a connection-oriented feature the HTTP API does not offer): group consumers are exercised over TCP only.",
                                             "A panic confined to the hostile connection's own task counts as 'a closed connection' (reported as a note), as the statement allows.",
                                             "Frames whose length prefix promises more bytes than are sent leave the server waiting for the rest: the hostile client then closes the socket; length prefixes above 16 MiB are not sent (allocation of the announced size is C11's/C06's resource concern, not agreement)."],
    },
    "C09": {
        "level": "exploration",
        "budget": {"quick": 40, "thorough": 600},
        "min_histories": {"quick": 1000, "thorough": 100000},
        "unit": "rule-layer (record x target) cases + system-layer histories",
        "can_be_exhaustive": True,
        "rule": ("(a) Rule layer: the real Permissioner is populated with a permission record and all 35 public rule functions are called for targets (1,2) and (1,1): "
                 "records = 2^10 global flag sets x {no stream table, table with a foreign stream only, record for the stream with 2^6 flag sets x {no topic table, empty, foreign topic only, "
                 "record for the topic with 2^4 flag sets}} = 1,247,232 records; thorough enumerates all of them (exhaustive: true), quick takes every record with <= 3 flags plus a seeded 1/12 sample. "
                 "Oracles: no panic, allowed => granted by the documented hierarchy (most permissive reading), isolation from foreign stream/topic records, monotonicity under 20 single-flag supersets, "
                 "no residue after update/delete, root allowed everything. (b) System layer histories over TCP/HTTP: unauthenticated and logged-out connections, HTTP routes without token, "
                 "a user with sampled records performing every guarded operation on own/sibling/foreign targets with the real rule function as oracle, permission updates and user deletion on an open connection, root protection. "
                 "evaluations = rule-layer cases + system histories; distinct_nontrivial = distinct record classes (table kind, topic-table kind, number of global flags) + distinct system histories."),
        "assumptions": COMMON_ASSUMPTIONS + ["Soundness is checked in one direction only (performed => granted); a denial the docs would have allowed is counted as a note.",
                                             "Commands that need no permission (get_me, logout, token management of the own user) are judged only on unauthenticated connections."],
    },
    "C10": admin(extra_assumptions=["Token expiry is crossed with the hooked virtual clock; verdicts within 2 s of an expiry boundary are skipped.",
                                    "The secret scan looks for every password and raw token used in the history, as bytes and as base64, in every file under the data directory (the default root password 'iggy' equals the user name and is excluded)."]),
    "C02": data(),
    "C03": data(),
    "C07": data(extra_assumptions=["Named consumers collide with numeric ones only through the 32-bit name hash; that probability is ignored."]),
    "C14": data(extra_assumptions=["Virtual time: hook H1 adds a monotone offset to IggyTimestamp::now(); pass time is bracketed by reads of that clock.",
                                   "Segment boundaries are not observable from outside: 'the segment being written is never deleted' is checked through its consequence that unexpired and newest messages survive."]),
    "C15": data(),
    "C16": data(),
    "C17": data(),
    "C18": data(extra_assumptions=["The id cache's own TTL/capacity edges are not explored (moka has its own clock); workloads stay far inside both, as the quantifier allows."]),
    "C19": data(extra_assumptions=["Key mismatch is exercised with one alternative key and with encryption switched off; markers searched for are the unique message tags (plus following random bytes) and the >= 8 byte names journalled in the history."]),
}

# ------------------------------------------------------------------------------------------------
# texts for MANIFEST.json

_DATA_NOTE = ("Trusted base: the harness' reference models (plain Rust, no code shared with iggy), the SDK's command encoders/"
              "response decoders used by the raw client, hook H2 for in-process restart. Reach: the histories generated in the budget; "
              "no claim beyond what evidence/<id>.json lists.")

MANIFEST_TEXT = {
    "C01": {"level_text": "Exploration: thousands of seeded histories against the real server; after every send and every poll the model's offset<->message mapping and the reported current offset are compared; held on what was observed, no more.",
            "design_ref": "DESIGN.md §4 C01", "level_note": _DATA_NOTE,
            "technique": "runtime monitoring: reference log model vs client-boundary observations over seeded histories"},
    "C02": {"level_text": "Exploration: every poll of every history (offset/first/last/next/timestamp; windows aimed at save points, restart points and segment boundaries) is compared with the exact slice of the reference log model, field by field.",
            "design_ref": "DESIGN.md §4 C02", "level_note": _DATA_NOTE,
            "technique": "runtime monitoring: exact-slice oracle from a reference log model over seeded histories"},
    "C03": {"level_text": "Exploration: before/after (metamorphic) equality of full scans, current offsets and counts across 1-5 clean restarts per history, then the C01/C02 oracles keep running on post-restart traffic.",
            "design_ref": "DESIGN.md §4 C03", "level_note": _DATA_NOTE,
            "technique": "runtime monitoring: before/after restart comparison + reference model"},
    "C07": {"level_text": "Exploration: after every offset-mutating step all identities (consumers, named consumers, groups with colliding ids) are read back on the partition and compared with an offset model; next-polls and auto-commit are checked against the same model.",
            "design_ref": "DESIGN.md §4 C07", "level_note": _DATA_NOTE,
            "technique": "runtime monitoring: offset reference model with full read-back after each mutation"},
    "C14": {"level_text": "Exploration with a virtual clock: expiring topics, tiny segments, clock advances and real maintenance passes; after each pass a windowed full scan decides deleted => expired, unexpired => retained, survivors served unchanged, offsets continue (also across restart), reads below the earliest retained offset start at it.",
            "design_ref": "DESIGN.md §4 C14", "level_note": _DATA_NOTE + " Hook H1 (clock offset).",
            "technique": "runtime monitoring: retention oracle over model timestamps under a hooked virtual clock"},
    "C15": {"level_text": "Exploration: the size the gate itself uses (TopicDetails.size) is read before every send; accept/refuse must follow the configured rule; clean-up passes may only remove a prefix, at most one segment per partition, never the newest message; too-small limits must be refused.",
            "design_ref": "DESIGN.md §4 C15", "level_note": _DATA_NOTE,
            "technique": "runtime monitoring: gate oracle on observed size + prefix/oldest-only oracle after maintenance passes"},
    "C16": {"level_text": "Exploration: at checkpoints partition/topic/stream figures and server statistics are compared with the reference model and with each other (sums), and before/after every restart.",
            "design_ref": "DESIGN.md §4 C16", "level_note": _DATA_NOTE,
            "technique": "runtime monitoring: conservation of counters against a reference model"},
    "C17": {"level_text": "Exploration: per send the per-partition message counts are read before and after: exactly one partition grows by the batch size; named partition / key memo / rotation successor are checked against small models.",
            "design_ref": "DESIGN.md §4 C17", "level_note": _DATA_NOTE,
            "technique": "runtime monitoring: before/after counter vectors + key memo + rotation model"},
    "C18": {"level_text": "Exploration with deduplication on (and off): batches with seeded id repetition patterns (within batch, across batches, across save points, roll-overs and restarts) and near-miss ids (distinct 128-bit ids that equal an earlier id in one half, with the halves swapped, or under an xor fold of the halves: they must be stored); growth per send and full scans must equal the first-occurrence model.",
            "design_ref": "DESIGN.md §4 C18", "level_note": _DATA_NOTE,
            "technique": "runtime monitoring: first-occurrence reference model"},
    "C19": {"level_text": "Exploration with encryption on: lossless reads (model), byte search of every file under the data directory for message markers and journalled names, restart with another key / with encryption off, flipped ciphertext byte must surface as an error.",
            "design_ref": "DESIGN.md §4 C19", "level_note": _DATA_NOTE,
            "technique": "runtime monitoring: reference model + file-content scan + fault injection on stored ciphertext"},
    "C05": {"level_text": "Exploration: histories of acknowledged catalogue commands over TCP and HTTP with 1-3 clean restarts; the normalised catalogue dump (ids, names, settings, partitions, groups, users, permissions, tokens, message scans, directories, logins) must be identical before and after each restart and equal to the reference catalogue.",
            "design_ref": "DESIGN.md §4 C05", "level_note": _DATA_NOTE + " created_at fields and exact token expiry instants are excluded from the comparison (they are re-derived from journal timestamps).",
            "technique": "runtime monitoring: before/after restart comparison of catalogue dumps + sequential reference catalogue"},
    "C06": {"level_text": "Exploration: every catalogue command is judged by a sequential reference catalogue (valid => accepted, invalid => refused and a full dump unchanged), ids returned must be fresh, lookups by id and by name must agree, deletes must cascade to directories and client memberships, no server panic.",
            "design_ref": "DESIGN.md §4 C06", "level_note": _DATA_NOTE,
            "technique": "runtime monitoring: sequential reference catalogue with full read-back"},
    "C04": {"level_text": "Fault enumeration: every file-mutation point of every workload history becomes a crash image (plus torn variants of the last write), each recovered by a fresh incarnation of the real server and judged against the acknowledged model: start-up succeeds, consistent catalogue, gap-free content-identical prefix containing every completed wait-mode write, traffic continues at the next offset, no garbage offsets.",
            "design_ref": "DESIGN.md §4 C04", "level_note": "Trusted base: hook H3 (file-mutation events) and the single-worker image protocol; process-crash model (kernel page cache survives).",
            "technique": "runtime monitoring with crash-point enumeration: hooked file-mutation events -> directory images -> real recovery -> model oracle"},
    "C08": {"level_text": "Exploration: after every join/leave/disconnect/partition change the group structure reported by the server is checked (members, exclusive and complete assignment, even shares); every member poll must be served from its own share in rotation; next+auto-commit delivery across all members is checked per partition as exactly 0,1,2,... with the right content, and a final drain must hand over everything.",
            "design_ref": "DESIGN.md §4 C08", "level_note": _DATA_NOTE,
            "technique": "runtime monitoring: structural invariants on reported group state + exactly-once delivery checker"},
    "C11": {"level_text": "Fault enumeration: journals produced by real concurrent traffic and by concurrent direct applies with injected append failures are parsed independently (indices, checksums), reloaded by the real loader and by System::init; then every truncation length, byte mutations at every position and every entry-level permutation are fed to the loader, which must report them or return a prefix after a clean cut.",
            "design_ref": "DESIGN.md §4 C11", "level_note": "Trusted base: the harness' independent journal parser and crc32; hooks H4 (schedule point) and H5 (append fault).",
            "technique": "runtime monitoring with fault injection + exhaustive mutation enumeration of recorded artefacts"},
    "C12": {"level_text": "Exploration: thousands of short concurrent producer/consumer histories with recorded call/return instants, checked offline against the final log: no loss/duplication, contiguous batches in producer order, every poll a contiguous run agreeing with the final log, short results end on batch boundaries, acknowledged sends visible to later polls (wait mode).",
            "design_ref": "DESIGN.md §4 C12", "level_note": "Trusted base: the offline checker; hook H4 schedule points with a seeded policy. Schedules are sampled, not enumerated.",
            "technique": "runtime monitoring: client-boundary history + final-log (version order) checker under stress and injected delays"},
    "C20": {"level_text": "Exploration: the real IggyProducer/IggyConsumer (over the SDK's TcpClient) against the real server across seeded producer/consumer settings and drop/re-create points; a transport tap records fetches and commits, the driver records yields, stored offsets are read at quiescence; offline oracles for delivery to the addressed stream/topic/partition, in-order exactly-once yields, commit bounds and resume-after-commit.",
            "design_ref": "DESIGN.md §4 C20", "level_note": "Trusted base: the event log (tap + driver) and the final logs read with a raw client; bounded-progress reading of completeness (a consumer that answers 40 polls without yielding is idle).",
            "technique": "runtime monitoring: client-boundary event log (fetch/commit/yield) checked against the final partition logs and stored offsets"},
    "C13": {"level_text": "Exploration: structure-aware generation of every command value, encoded by the SDK and decoded by the server's own decoder (equality + validation on both sides), journal and on-disk encodings round-tripped, TCP-vs-HTTP differential reads of boundary-valued entities and messages against what was sent, and hostile malformed-frame sessions next to a model-checked healthy connection.",
            "design_ref": "DESIGN.md §4 C13", "level_note": "Trusted base: the value generators (they decide which values count as well-formed: those the SDK's own validate() accepts) and derived PartialEq of the command types; hook H6 (re-export of the server's command decoder).",
            "technique": "runtime monitoring: round-trip and differential oracles over generated values + client-boundary observation under malformed input"},
    "C09": {"level_text": "Rule layer: exhaustive (thorough) / sampled (quick) evaluation of the real permission rule functions over all permission records against the documented hierarchy, with isolation, monotonicity, no-residue and no-panic oracles; system layer: the handlers are observed over TCP/HTTP (and, for never-logged-in and logged-out connections, also over the QUIC listener with the SDK's QuicClient in every second history) for unauthenticated, logged-out, deleted-user and permission-changed connections with the real rule functions as oracle.",
            "design_ref": "DESIGN.md §4 C09", "level_note": "Trusted base: PermModel (the documented hierarchy in its most permissive reading, one direction: performed => granted); fixture entities with fixed ids 1..3.",
            "technique": "runtime monitoring: exhaustive evaluation of pure rule functions + client-boundary observation of handlers"},
    "C10": {"level_text": "Exploration: credential histories (users, status, passwords, tokens of root and non-root users, virtual-clock expiry, cleaner passes, restarts, TCP and HTTP) with login attempts from the full candidate set judged by a credential model; logout/JWT revocation checks; byte search of all data files for every password/token used.",
            "design_ref": "DESIGN.md §4 C10", "level_note": _DATA_NOTE + " Hook H1 (clock offset).",
            "technique": "runtime monitoring: credential reference model + file-content scan"},
}

NOT_APPLICABLE = []
