"""Per-check metadata used by the driver (budgets, minimum coverage, evidence texts)."""

COMMON_ASSUMPTIONS = [
    "TCP (and where stated HTTP) transports are driven; QUIC and TLS are not (same handlers).",
    "The server runs in-process (real System, real tcp/http front ends) on its own tokio runtime; process-global "
    "allocators are reset by hook H2 on restart.",
    "Harness build profile keeps release arithmetic semantics (debug-assertions off, overflow-checks off).",
    "A verdict covers only the executions observed; nothing here is a proof.",
]

DATA_RULE = (
    "Seeded histories (splitmix64 from VERIF_SEED, shard, index) of send/poll/flush/save/restart/purge/offset operations on "
    "1-3 partitions, every storage-configuration axis drawn per history, cache class fixed per shard process. "
    "evaluations = histories executed. A history is non-trivial when it contains at least one property-specific event "
    "(listed in events_seen); distinct_nontrivial = number of distinct (configuration class, collapsed sequence of "
    "operation kinds incl. property-specific events) pairs among non-trivial histories."
)


def data(budget_q=45, budget_t=900, min_q=20, min_t=500, extra_assumptions=()):
    return {
        "level": "exploration",
        "budget": {"quick": budget_q, "thorough": budget_t},
        "min_histories": {"quick": min_q, "thorough": min_t},
        "rule": DATA_RULE,
        "assumptions": COMMON_ASSUMPTIONS + list(extra_assumptions),
    }


CHECKS = {
    "C01": data(),
    "C02": data(),
    "C03": data(),
    "C07": data(extra_assumptions=["Named consumers collide with numeric ones only through the 32-bit name hash; that probability is ignored."]),
}
PENDING = {
    "C16": data(),
    "C17": data(),
    "C18": data(extra_assumptions=["The id cache's own TTL/capacity edges are not explored (moka has its own clock); workloads stay far inside both, as the quantifier allows."]),
    "C19": data(),
}

# ------------------------------------------------------------------------------------------------
# texts for MANIFEST.json

_DATA_NOTE = ("Trusted base: the harness' reference models (plain Rust, no code shared with iggy), the SDK's command encoders/"
              "response decoders used by the raw client, hook H2 for in-process restart. Reach: the histories generated in the budget; "
              "no claim beyond what evidence/<id>.json lists.")

MANIFEST_TEXT = {
    "C01": {"level_text": "Exploration: thousands of seeded histories against the real server; after every send and every poll the model's offset<->message mapping and the reported current offset are compared; held on what was observed, no more.",
            "design_ref": "DESIGN.md §4 C01", "level_note": _DATA_NOTE,
            "technique": "runtime monitoring: reference log model vs client-boundary observations over seeded histories"},
    "C02": {"level_text": "Exploration: every poll of every history (offset/first/last/next/timestamp; windows aimed at save points, restart points and segment boundaries) is compared with the exact slice of the reference log model, field by field.",
            "design_ref": "DESIGN.md §4 C02", "level_note": _DATA_NOTE,
            "technique": "runtime monitoring: exact-slice oracle from a reference log model over seeded histories"},
    "C03": {"level_text": "Exploration: before/after (metamorphic) equality of full scans, current offsets and counts across 1-5 clean restarts per history, then the C01/C02 oracles keep running on post-restart traffic.",
            "design_ref": "DESIGN.md §4 C03", "level_note": _DATA_NOTE,
            "technique": "runtime monitoring: before/after restart comparison + reference model"},
    "C07": {"level_text": "Exploration: after every offset-mutating step all identities (consumers, named consumers, groups with colliding ids) are read back on the partition and compared with an offset model; next-polls and auto-commit are checked against the same model.",
            "design_ref": "DESIGN.md §4 C07", "level_note": _DATA_NOTE,
            "technique": "runtime monitoring: offset reference model with full read-back after each mutation"},
}

NOT_APPLICABLE = [
    {"property_id": p, "reason": "check under construction in this framework (not yet claimed)"}
    for p in ["C04", "C05", "C06", "C08", "C09", "C10", "C11", "C12", "C13", "C14", "C15", "C16", "C17", "C18", "C19", "C20"]
]
