"""Per-check metadata used by the driver (budgets, minimum coverage, evidence texts)."""

COMMON_ASSUMPTIONS = [
    "TCP (and where stated HTTP) transports are driven; QUIC and TLS are not (same handlers).",
    "The server runs in-process (real System, real tcp/http front ends) on its own tokio runtime; process-global "
    "allocators are reset by hook H2 on restart.",
    "Harness build profile keeps release arithmetic semantics (debug-assertions off, overflow-checks off).",
    "A verdict covers only the executions observed; nothing here is a proof.",
]

DATA_RULE = (
    "Seeded histories (splitmix64 from VERIF_SEED, shard, index) of send/poll/flush/save/restart/purge/offset operations on "
    "1-3 partitions, every storage-configuration axis drawn per history, cache class fixed per shard process. "
    "evaluations = histories executed. A history is non-trivial when it contains at least one property-specific event "
    "(listed in events_seen); distinct_nontrivial = number of distinct (configuration class, collapsed sequence of "
    "operation kinds incl. property-specific events) pairs among non-trivial histories."
)


def data(budget_q=45, budget_t=900, min_q=20, min_t=500, extra_assumptions=()):
    return {
        "level": "exploration",
        "budget": {"quick": budget_q, "thorough": budget_t},
        "min_histories": {"quick": min_q, "thorough": min_t},
        "rule": DATA_RULE,
        "assumptions": COMMON_ASSUMPTIONS + list(extra_assumptions),
    }


CHECKS = {
    "C01": data(),
    "C02": data(),
    "C03": data(),
    "C07": data(extra_assumptions=["Named consumers collide with numeric ones only through the 32-bit name hash; that probability is ignored."]),
    "C16": data(),
    "C17": data(),
    "C18": data(extra_assumptions=["The id cache's own TTL/capacity edges are not explored (moka has its own clock); workloads stay far inside both, as the quantifier allows."]),
    "C19": data(),
}
