#!/bin/bash
# Runs the repository's pinned baseline (the command from /root/.vp/BASELINE.json) with the verif guard OFF
# (no --features verif anywhere) and compares the set of passing tests with BASELINE.json's stable_pass.
set -u
cd /repo
export CARGO_NET_OFFLINE=true
cargo nextest run --workspace --no-fail-fast --tool-config-file pb:/w/lib/nextest.toml --profile pb --test-threads 8 --offline >/tmp/verif-baseline.log 2>&1
python3 - <<'PY'
import json, glob, sys, xml.etree.ElementTree as ET
b = json.load(open('/root/.vp/BASELINE.json'))
stable = set(b['stable_pass'])
paths = glob.glob('/repo/target/nextest/pb/junit.xml')
if not paths:
    print('no junit.xml produced; see /tmp/verif-baseline.log'); sys.exit(2)
root = ET.parse(paths[0]).getroot()
passed = set()
for ts in root.iter('testsuite'):
    suite = ts.get('name')
    for tc in ts.iter('testcase'):
        ok = not any(ch.tag in ('failure', 'error') for ch in tc)
        if ok:
            passed.add(f"{suite}::{tc.get('name')}")
missing = sorted(stable - passed)
print(f"baseline: {len(stable & passed)}/{len(stable)} stable tests pass with the guard off")
for m in missing[:30]:
    print('  NOT PASSING:', m)
sys.exit(0 if not missing else 1)
PY
